package checks

import (
	"bufio"
	"encoding/json"
	"fmt"
	"os"
	"path/filepath"
	"sort"
	"strings"
	"sync/atomic"
	"syscall"
	"time"

	"verif/core"
)

// C11: concurrent evaluation over shared values is race-free and gives serial results.
//
// Two deciding monitors (DESIGN §7 C11):
//  (i)  the Go race detector: the harness is built with -race; every worker child runs with
//       GORACE="halt_on_error=0 log_path=<rundir>/race.<shard>"; the driver-side Finish parses the
//       log files, keeps reports with a frame of github.com/arr-ai/arrai on either access stack,
//       and turns each distinct unordered pair of innermost arrai frames into a violation
//       (Mode "race"). Reports with no arrai frame (frozen / wbnf internals) are evidence only.
//  (ii) serial equivalence: per round every goroutine's outcome (denotation + repr, or error)
//       must equal the outcome of the same program on an identically constructed, separate copy
//       evaluated alone (two such copies; where they disagree the component is not judged).
//
// Case layout: case i runs in worker process (shard) i % S, slot i / S; see the shard roles below.

type c11 struct{}

func init() { core.Register(c11{}) }

func (c11) ID() string    { return "C11" }
func (c11) Level() string { return "exploration" }
func (c11) Rule() string {
	return "case = (worker process, slot). First-use processes: slot 0 = W2 (8 goroutines race first use of the process-wide lazies in a fresh process), other slots = W4 (concurrent compile through one shared import cache, succeeding and failing imports) and the stdlib scenario. Every other process runs one scenario of the table (W1 shared cold tuples/relations/dicts/closures/sequences/mixed sets/compiled exprs; W3 fan-out over 24..64-element sets with succeeding and failing callbacks under FROZEN_CONCURRENCY=0) in all its slots; each case = R rounds; each round builds the shared values fresh through the Go API (cold caches), releases G goroutines from a spin barrier, each evaluating every program of the scenario plus a Go-level inspection vector in its own order, and compares every outcome with two serial evaluations on separately built copies. The first case of each scenario is canonical (seed-independent sizes, G=8); later ones draw sizes, G and orders from VERIF_SEED. A case is non-trivial when >=2 goroutines' windows overlapped in time; distinct by (scenario, parameters, G) and by (scenario, parameters, program)."
}
func (c11) Assumptions() []string {
	return []string{
		"the race detector only sees executed interleavings; absence of a report is not absence of a race",
		"the race runtime drops a report when the older of the two accesses has left its goroutine's event history (observed: three goroutines re-initialising one package-level variable 50 s apart give no report); workers run with history_size=5, the serial references run after the concurrent phase, and W2 goroutines keep re-reading the lazies while the others initialise, so that conflicting accesses are close together",
		"synchronisation inside the libraries the workload itself goes through (fmt's sync.Pool, sync.Once fast paths, the import-cache mutex) orders some access pairs and can hide a race on a given schedule; rounds, goroutine orders and processes vary to compensate",
		"FROZEN_CONCURRENCY=0 only lowers the size threshold of frozen's own fan-out code path; the thorough tier repeats the fan-out workload on a >=2^17-element set with the knob unset",
		"races whose access stacks contain no github.com/arr-ai/arrai frame (memory owned by frozen/wbnf) are recorded as foreign_races, not judged",
		"serial reference = same program on an identically constructed separate copy; where two serial copies disagree with each other (hash of closures, error text chosen by whichever failing callback ran first) that component is not judged",
		"error outcomes are compared by text only for programs whose error text is element-independent by construction; otherwise by mode",
	}
}

func (c11) Shards(cfg *core.Config) int { return cfg.Pick(16, 96) }

func c11Slots(cfg *core.Config) int { return cfg.Pick(3, 5) }

func (c c11) NumCases(cfg *core.Config) int { return c.Shards(cfg) * c11Slots(cfg) }

// Shard roles. First use of the std scopes costs ~45 CPU-s under the race detector (the wbnf
// parser is ~50x slower there), so only "first-use" shards touch the `//` library at all: their
// slot 0 is the W2 case, their other slots the W4 import-cache and stdlib scenarios. All other
// shards run one `//`-free scenario each (compiled once per process) for all their slots.
func c11FirstUseShard(cfg *core.Config, shard int) bool {
	if cfg.Thorough() {
		return shard%4 == 0
	}
	return shard == 0
}

// Natural shards run with FROZEN_CONCURRENCY unset: the first-use shards (W2/W4/stdlib need no
// fan-out, and the parser is slower still with the knob on) and every 8th scenario shard.
func c11Natural(cfg *core.Config, shard int) bool {
	if c11FirstUseShard(cfg, shard) {
		return true
	}
	if cfg.Thorough() {
		return shard%8 == 7
	}
	return shard == 7
}

func c11BigShard(cfg *core.Config, shard int) bool { return cfg.Thorough() && shard%32 == 7 }

func (c11) WorkerEnv(cfg *core.Config, shard int) []string {
	env := []string{
		// history_size=5: the race runtime drops a report whose older access has left its goroutine's
		// history; a larger history keeps more of them reportable.
		"GORACE=halt_on_error=0 history_size=5 log_path=" + filepath.Join(cfg.RunDir, fmt.Sprintf("race.%d", shard)),
		fmt.Sprintf("C11_SHARD=%d", shard),
	}
	if c11Natural(cfg, shard) {
		env = append(env, "FROZEN_CONCURRENCY=")
	} else {
		env = append(env, "FROZEN_CONCURRENCY=0")
	}
	return env
}

func (c11) HangWallSeconds() int { return 30 }

// First use of the std scopes needs ~50 CPU-seconds on one goroutine under the race detector; on a
// loaded machine that can be many minutes of wall clock. Giving up is inconclusive, never a verdict.
func (c11) SlowWallSeconds() int { return 5400 }

// A thorough worker process carries 100-500 CPU-seconds of race-instrumented work; on a machine
// shared with other builds (load average >100 on 16 cores was observed) 40 minutes is not enough.
func (c11) WorkerWallMinutes() int { return 180 }

// c11CaseData is forwarded to Finish for every case.
type c11CaseData struct {
	Class       string `json:"class"`
	Scen        string `json:"scen"`
	Natural     bool   `json:"natural,omitempty"`
	Rounds      int    `json:"rounds"`
	Goroutines  int    `json:"g"`
	Evals       int    `json:"evals"`       // concurrent evaluations of programs/inspections
	Compared    int    `json:"compared"`    // outcomes compared with the serial reference
	Unstable    int    `json:"unstable"`    // outcomes not judged because two serial copies disagreed
	OverlapPair int    `json:"overlap"`     // goroutine pairs (summed over rounds) whose windows overlapped in time
	Pairs       int    `json:"pairs"`       // goroutine pairs (summed over rounds)
	ProbeEvals  int    `json:"probe_evals"` // evaluations with a goroutine-id probe as callback
	FanoutEvals int    `json:"fanout"`      // ... whose callbacks ran on >1 distinct goroutine id
	ProbeCalls  int    `json:"probe_calls"`
	OffCaller   int    `json:"off_caller"` // callbacks that ran on a goroutine other than the evaluating one
	MaxGoids    int    `json:"max_goids"`
	LingerReads int    `json:"linger_reads,omitempty"` // W2: re-reads of the lazies while other goroutines were still initialising them
	FirstUse    bool   `json:"first_use,omitempty"`
	BigN        int    `json:"big_n,omitempty"`
	RaceFile    string `json:"race_file,omitempty"`
	RaceFrom    int64  `json:"race_from,omitempty"`
	RaceTo      int64  `json:"race_to,omitempty"`
	Desc        string `json:"desc,omitempty"`
	WallMs      int64  `json:"wall_ms"`
	CPUMs       int64  `json:"cpu_ms"`
	Shard       string `json:"shard,omitempty"`
}

var c11ProcCases atomic.Int32

// c11RaceLog returns this process's race log path ("" when GORACE has no log_path).
func c11RaceLog() string {
	for _, f := range strings.Fields(os.Getenv("GORACE")) {
		if strings.HasPrefix(f, "log_path=") {
			return fmt.Sprintf("%s.%d", strings.TrimPrefix(f, "log_path="), os.Getpid())
		}
	}
	return ""
}

func c11ProcCPU() int64 {
	var ru syscall.Rusage
	_ = syscall.Getrusage(syscall.RUSAGE_SELF, &ru)
	return ru.Utime.Nano() + ru.Stime.Nano()
}

func c11FileSize(p string) int64 {
	if p == "" {
		return 0
	}
	st, err := os.Stat(p)
	if err != nil {
		return 0
	}
	return st.Size()
}

// c11Plan maps a case index to its class and scenario.
type c11PlanT struct {
	shard, slot int
	class       string // W2 | W3big | scen
	scen        int    // index into c11Scens for class "scen"
	canon       bool   // first case of this scenario in case order: seed-independent parameters
	natural     bool
}

func c11ScenIndex(name string) int {
	for k, s := range c11Scens {
		if s.name == name {
			return k
		}
	}
	panic("c11: no scenario " + name)
}

func c11Plan(cfg *core.Config, i int) c11PlanT {
	S := c11{}.Shards(cfg)
	p := c11PlanT{shard: i % S, slot: i / S}
	p.natural = c11Natural(cfg, p.shard)
	if c11FirstUseShard(cfg, p.shard) {
		switch {
		case p.slot == 0:
			p.class = "W2"
		case p.slot%2 == 1:
			p.class, p.scen = "scen", c11ScenIndex("w4-imports")
		default:
			p.class, p.scen = "scen", c11ScenIndex("w1-stdlib")
		}
		p.canon = p.shard == 0 && p.slot <= 2
		return p
	}
	if c11BigShard(cfg, p.shard) && p.slot == 0 {
		p.class = "W3big"
		return p
	}
	// scenario shards: one scenario per process; k-th knob shard / k-th natural shard
	var elig []int
	for k, s := range c11Scens {
		if s.std || (p.natural && s.class != "W1") {
			continue
		}
		elig = append(elig, k)
	}
	k := 0
	for sh := 0; sh < p.shard; sh++ {
		if !c11FirstUseShard(cfg, sh) && c11Natural(cfg, sh) == p.natural {
			k++
		}
	}
	p.class = "scen"
	p.scen = elig[k%len(elig)]
	p.canon = k < len(elig) && p.slot == 0 && !p.natural
	return p
}

func (c c11) RunCase(cfg *core.Config, i int) core.CaseResult {
	first := c11ProcCases.Add(1) == 1
	if i < 0 || i >= c.NumCases(cfg) {
		return core.CaseResult{Inconclusive: "race report not attributed to a case; see the report text in the replay file"}
	}
	p := c11Plan(cfg, i)
	if os.Getenv("C11_SHARD") == "" {
		// not spawned by the driver (./check --replay): frozen reads its knob at start-up, so
		// re-exec with the environment the case's worker process had. Race reports then go to
		// stderr and the process exits 66 if there were any.
		want := "0"
		if p.natural {
			want = ""
		}
		if exe, err := os.Executable(); err == nil {
			_ = syscall.Exec(exe, os.Args, append(os.Environ(), "FROZEN_CONCURRENCY="+want, "C11_SHARD=replay"))
		}
	}
	logf := c11RaceLog()
	off0 := c11FileSize(logf)
	tStart := time.Now()
	cpu0 := c11ProcCPU()
	var res core.CaseResult
	var d *c11CaseData
	switch p.class {
	case "W2":
		res, d = c11RunFirstUse(cfg, i, first)
	case "W3big":
		res, d = c11RunBig(cfg, i)
	default:
		res, d = c11RunScenario(cfg, i, p)
	}
	d.Natural = os.Getenv("FROZEN_CONCURRENCY") != "0"
	if off1 := c11FileSize(logf); off1 > off0 {
		d.RaceFile, d.RaceFrom, d.RaceTo = filepath.Base(logf), off0, off1
	}
	d.WallMs = time.Since(tStart).Milliseconds()
	d.CPUMs = (c11ProcCPU() - cpu0) / 1e6
	d.Shard = os.Getenv("C11_SHARD")
	res.Data = d
	if res.Evals == 0 {
		res.Evals = 1
	}
	return res
}

// ---------------------------------------------------------------------------------------------
// race log parsing (driver side)

type c11Report struct {
	File   string
	Off    int64
	Kinds  [2]string   // "Read" / "Write" ...
	Stacks [2][]string // function names, innermost first
	Text   string
}

// c11StripGenerics removes [...] type-argument lists (nested) from a function name.
func c11StripGenerics(fn string) string {
	var sb strings.Builder
	depth := 0
	for _, r := range fn {
		switch {
		case r == '[':
			depth++
		case r == ']':
			if depth > 0 {
				depth--
			}
		case depth == 0:
			sb.WriteRune(r)
		}
	}
	return sb.String()
}

func c11ParseRaceLog(path string) []c11Report {
	f, err := os.Open(path)
	if err != nil {
		return nil
	}
	defer f.Close()
	var out []c11Report
	sc := bufio.NewScanner(f)
	sc.Buffer(make([]byte, 1<<20), 16<<20)
	var cur *c11Report
	var text strings.Builder
	section := -1 // index of the access stack being read; >=2 = goroutine creation stacks
	var off, curOff int64
	flush := func() {
		if cur != nil && cur.Kinds[0] != "" {
			cur.Text = text.String()
			out = append(out, *cur)
		}
		cur = nil
		text.Reset()
	}
	for sc.Scan() {
		ln := sc.Text()
		lineOff := off
		off += int64(len(sc.Bytes())) + 1
		if strings.HasPrefix(ln, "==================") {
			flush()
			continue
		}
		if strings.HasPrefix(ln, "WARNING: DATA RACE") {
			flush()
			curOff = lineOff
			cur = &c11Report{File: filepath.Base(path), Off: curOff}
			section = -1
			text.WriteString(ln + "\n")
			continue
		}
		if cur == nil {
			continue
		}
		if text.Len() < 6000 {
			text.WriteString(ln + "\n")
		}
		switch {
		case ln == "":
			// section separator
		case !strings.HasPrefix(ln, " "):
			// header of a section
			if i := strings.Index(ln, " at 0x"); i > 0 && strings.Contains(ln, " by ") {
				section++
				if section < 2 {
					cur.Kinds[section] = ln[:i]
				}
			} else {
				section = 2
			}
		case strings.HasPrefix(ln, "      "):
			// file:line of the previous frame
		case strings.HasPrefix(ln, "  "):
			if section >= 0 && section < 2 {
				fn := strings.TrimSpace(ln)
				fn = strings.TrimSuffix(fn, "()")
				cur.Stacks[section] = append(cur.Stacks[section], c11StripGenerics(fn))
			}
		}
	}
	flush()
	return out
}

const c11ArraiPkg = "github.com/arr-ai/arrai/"

// c11InnerArrai returns the innermost arrai frame of a stack (normalised) or "".
func c11InnerArrai(st []string) string {
	for _, fn := range st {
		if strings.HasPrefix(fn, c11ArraiPkg) {
			return core.NormFrame(fn)
		}
	}
	return ""
}

func c11Top(st []string) string {
	for _, fn := range st {
		if strings.HasPrefix(fn, "runtime.") || strings.HasPrefix(fn, "sync/atomic.") || strings.HasPrefix(fn, "internal/") {
			continue
		}
		return core.NormFrame(fn)
	}
	if len(st) > 0 {
		return st[0]
	}
	return "(no stack)"
}

// c11Classify returns class (arrai|foreign|canary|harness) and the signature (unordered pair).
func c11Classify(r c11Report) (class, site string) {
	for _, st := range r.Stacks {
		for _, fn := range st {
			if strings.Contains(fn, "c11Canary") {
				return "canary", "canary"
			}
		}
	}
	pair := func(a, b string) string {
		if a > b {
			a, b = b, a
		}
		return a + " x " + b
	}
	ta, tb := c11Top(r.Stacks[0]), c11Top(r.Stacks[1])
	if strings.HasPrefix(ta, "verif/") && strings.HasPrefix(tb, "verif/") {
		return "harness", pair(ta, tb)
	}
	ia, ib := c11InnerArrai(r.Stacks[0]), c11InnerArrai(r.Stacks[1])
	if ia == "" && ib == "" {
		return "foreign", pair(ta, tb)
	}
	if ia == "" {
		ia = "(no arrai frame: " + ta + ")"
	}
	if ib == "" {
		ib = "(no arrai frame: " + tb + ")"
	}
	return "arrai", pair(ia, ib)
}

func (c c11) Finish(cfg *core.Config, agg *core.Aggregate) {
	if !cfg.Race {
		agg.Fail("C11 needs the race build (bin/vcheck-race); this binary was built without -race")
	}
	// ---- per-case data ----
	type span struct {
		from, to int64
		c        int
		desc     string
	}
	spans := map[string][]span{}
	tot := map[string]*c11CaseData{}
	perScen := map[string]*c11CaseData{}
	firstUse, w2 := 0, 0
	bigN := 0
	add := func(m map[string]*c11CaseData, k string, d *c11CaseData) {
		t := m[k]
		if t == nil {
			t = &c11CaseData{}
			m[k] = t
		}
		t.Rounds += d.Rounds
		t.Goroutines += d.Goroutines * d.Rounds
		t.Evals += d.Evals
		t.Compared += d.Compared
		t.Unstable += d.Unstable
		t.OverlapPair += d.OverlapPair
		t.Pairs += d.Pairs
		t.ProbeEvals += d.ProbeEvals
		t.FanoutEvals += d.FanoutEvals
		t.ProbeCalls += d.ProbeCalls
		t.OffCaller += d.OffCaller
		t.LingerReads += d.LingerReads
		if d.MaxGoids > t.MaxGoids {
			t.MaxGoids = d.MaxGoids
		}
	}
	naturalFanout := 0
	wallByClass := map[string]float64{}
	wallByShard := map[string]float64{}
	wallTotal := 0.0
	for _, rec := range agg.Data {
		var d c11CaseData
		if json.Unmarshal(rec.Data, &d) != nil {
			continue
		}
		add(tot, d.Class, &d)
		add(perScen, d.Scen, &d)
		wallByClass[d.Scen] += float64(d.CPUMs) / 1000
		wallByShard[d.Shard] += float64(d.CPUMs) / 1000
		wallTotal += float64(d.WallMs) / 1000
		if d.Class == "W2" {
			w2++
			if d.FirstUse {
				firstUse++
			}
		}
		if d.BigN > bigN {
			bigN = d.BigN
		}
		if d.Natural {
			naturalFanout += d.FanoutEvals
		}
		if d.RaceFile != "" {
			spans[d.RaceFile] = append(spans[d.RaceFile], span{d.RaceFrom, d.RaceTo, rec.Case, d.Desc})
		}
	}
	// ---- race logs ----
	files, _ := filepath.Glob(filepath.Join(cfg.RunDir, "race.*"))
	sort.Strings(files)
	type sigAgg struct {
		n     int
		first c11Report
		c     int
		desc  string
	}
	arrai := map[string]*sigAgg{}
	foreign := map[string]int{}
	harness := map[string]*sigAgg{}
	nReports, nArrai, nForeign, nCanary := 0, 0, 0, 0
	canaryFiles := map[string]bool{}
	for _, f := range files {
		for _, r := range c11ParseRaceLog(f) {
			nReports++
			class, site := c11Classify(r)
			caseNo, desc := -1, ""
			for _, s := range spans[r.File] {
				if r.Off >= s.from && r.Off < s.to {
					caseNo, desc = s.c, s.desc
				}
			}
			switch class {
			case "canary":
				nCanary++
				canaryFiles[r.File] = true
			case "foreign":
				nForeign++
				foreign[site]++
			case "harness":
				if harness[site] == nil {
					harness[site] = &sigAgg{first: r, c: caseNo, desc: desc}
				}
				harness[site].n++
			default:
				nArrai++
				if arrai[site] == nil {
					arrai[site] = &sigAgg{first: r, c: caseNo, desc: desc}
				}
				arrai[site].n++
			}
		}
	}
	var sites []string
	for s := range arrai {
		sites = append(sites, s)
	}
	sort.Strings(sites)
	for _, s := range sites {
		a := arrai[s]
		agg.Viols = append(agg.Viols, core.Violation{Case: a.c,
			Sig: core.Signature{Property: "C11", Clause: "C11.race-free", Mode: "race", Site: s},
			Detail: fmt.Sprintf("%d race report(s) with this frame pair; first in %s (case %d: %s): %s", a.n, a.first.File, a.c, a.desc,
				strings.ReplaceAll(c11Clip(a.first.Text, 2500), "\n", " | ")),
			Replay: map[string]interface{}{"case": a.c, "note": "re-run the case with bin/vcheck-race: the report is printed on stderr (exit 66)", "report": c11Clip(a.first.Text, 6000)}})
	}
	for s, h := range harness {
		agg.Fail("race inside the harness itself (%d reports) %s: %s", h.n, s, strings.ReplaceAll(c11Clip(h.first.Text, 1500), "\n", " | "))
	}
	// ---- evidence ----
	ev := func(d *c11CaseData) map[string]interface{} {
		if d == nil {
			return map[string]interface{}{"rounds": 0}
		}
		avgG := 0.0
		if d.Rounds > 0 {
			avgG = float64(d.Goroutines) / float64(d.Rounds)
		}
		return map[string]interface{}{"rounds": d.Rounds, "avg_goroutines_per_round": avgG, "concurrent_evaluations": d.Evals,
			"compared_with_serial": d.Compared, "serial_unstable_not_judged": d.Unstable,
			"goroutine_pairs": d.Pairs, "pairs_overlapping_in_time": d.OverlapPair,
			"probe_evaluations": d.ProbeEvals, "probe_evaluations_on_gt1_goroutine": d.FanoutEvals,
			"probe_callbacks": d.ProbeCalls, "probe_callbacks_off_calling_goroutine": d.OffCaller, "max_goroutine_ids_in_one_evaluation": d.MaxGoids}
	}
	byClass := map[string]interface{}{}
	for k, d := range tot {
		byClass[k] = ev(d)
	}
	byScen := map[string]interface{}{}
	for k, d := range perScen {
		byScen[k] = map[string]interface{}{"rounds": d.Rounds, "evals": d.Evals, "compared": d.Compared, "fanout_evals": d.FanoutEvals, "overlap_pairs": d.OverlapPair}
	}
	agg.Extra["case_cpu_seconds_by_scenario"] = wallByClass
	agg.Extra["case_cpu_seconds_by_worker_process"] = wallByShard
	agg.Extra["case_wall_seconds_total"] = wallTotal
	agg.Extra["workloads"] = byClass
	agg.Extra["scenarios"] = byScen
	agg.Extra["race_log_files"] = len(files)
	agg.Extra["race_reports_total"] = nReports
	agg.Extra["race_reports_arrai"] = nArrai
	agg.Extra["race_reports_foreign"] = nForeign
	agg.Extra["race_reports_canary"] = nCanary
	agg.Extra["distinct_arrai_race_signatures"] = sites
	agg.Extra["foreign_races"] = foreign
	agg.Extra["first_use_processes"] = firstUse
	if t := tot["W2"]; t != nil {
		agg.Extra["w2_lazy_rereads_while_others_initialise"] = t.LingerReads
	}
	agg.Extra["w2_cases"] = w2
	agg.Extra["largest_set_with_knob_unset"] = bigN
	agg.Extra["fanout_evaluations_with_knob_unset"] = naturalFanout
	// ---- floors ----
	for _, cl := range []string{"W1", "W2", "W3", "W4"} {
		if tot[cl] == nil || tot[cl].Rounds == 0 || tot[cl].Compared == 0 {
			agg.Fail("coverage floor: workload %s ran no compared round", cl)
		}
	}
	for _, s := range c11Scens {
		if d := perScen[s.name]; d == nil || d.Rounds == 0 {
			agg.Fail("coverage floor: scenario %s never ran", s.name)
		} else if d.OverlapPair == 0 {
			agg.Fail("coverage floor: scenario %s: no two goroutines ever overlapped in time", s.name)
		}
	}
	if t := tot["W3"]; t != nil && t.FanoutEvals == 0 {
		agg.Fail("coverage floor: no fan-out callback was observed on more than one goroutine id (FROZEN_CONCURRENCY knob ineffective?)")
	}
	if firstUse == 0 {
		agg.Fail("coverage floor: no worker process raced first use of the process-wide lazies")
	} else if t := tot["W2"]; t == nil || t.LingerReads == 0 {
		agg.Fail("coverage floor: W2 never re-read the lazies while other goroutines were still initialising them")
	}
	if cfg.Race && nCanary == 0 {
		agg.Fail("pipeline floor: the deliberate harness-owned canary race was never reported (race detector or log parsing not working)")
	}
	if cfg.Thorough() {
		if bigN < 1<<17 {
			agg.Fail("coverage floor: thorough tier must run a >=2^17-element set with the knob unset (largest seen %d)", bigN)
		} else if naturalFanout == 0 {
			agg.Fail("coverage floor: no fan-out observed with the knob unset")
		}
	}
}

func c11Clip(s string, n int) string {
	if len(s) > n {
		return s[:n]
	}
	return s
}
