package checks

import (
	"fmt"
	"path"
	"sort"
	"strconv"
	"strings"
)

// ---------------------------------------------------------------------------------------------
// C19 model side: the description (what the arr.ai result says should be on disk), its rendering
// as arr.ai source, and the reference semantics derived from the property statement and
// docs/docs/cli/eval.md ("Output controls"), NOT from pkg/arrai/out.go:
//
//   * a dict describes a directory, its string keys name the entries;
//   * a string / byte array describes a file with exactly those bytes (strings UTF-8 encoded);
//     `{}` is the empty file (docs: indistinguishable from "");
//   * a tuple (ifExists?, dir?, file?) is the long form: string == (file: s), dict == (dir: d);
//     ifExists omitted => 'merge' when dir is given, 'replace' when file is given;
//   * ifExists, applied when the entry already exists: ignore keeps what is there, replace
//     substitutes the described entry for whatever is there, merge overlays the described
//     directory on the existing one, remove deletes it, fail refuses (the command fails);
//     when the entry does not exist the described payload is simply created (remove: nothing);
//   * anything else anywhere in the description (number, non-empty plain set, array, function,
//     non-string key, ifExists not one of the five strings, dir: not a dict, file: not a string or
//     byte array) makes the description invalid: the command must fail and change nothing.
//
// Whatever the documents leave undetermined is classified "open" and is judged only on what holds
// under every reading (nothing outside PATH changes; a reported error leaves the tree unchanged).

// c19Val is one value of a description.
type c19Val struct {
	K     string // str | bytes | empty | dict | tuple | num | set | arr | fn
	S     string // str: content; bytes: raw bytes
	Ents  []c19Ent
	HasIf bool
	If    string  // valid rule name, or "" when IfRaw is used
	IfRaw string  // source of an invalid ifExists value (e.g. `'bogus'`, `7`)
	Dir   *c19Val // tuple: dir attribute
	File  *c19Val // tuple: file attribute
	Extra bool    // tuple: carries an attribute the docs do not mention
}

type c19Ent struct {
	Key    string // string key
	KeySrc string // source of a non-string key (Key unused)
	V      *c19Val
}

func c19Str(s string) *c19Val   { return &c19Val{K: "str", S: s} }
func c19Bytes(s string) *c19Val { return &c19Val{K: "bytes", S: s} }
func c19Empty() *c19Val         { return &c19Val{K: "empty"} }
func c19Bad(kind string) *c19Val {
	return &c19Val{K: kind}
}
func c19Dict(kv ...interface{}) *c19Val {
	d := &c19Val{K: "dict"}
	for i := 0; i+1 < len(kv); i += 2 {
		d.Ents = append(d.Ents, c19Ent{Key: kv[i].(string), V: kv[i+1].(*c19Val)})
	}
	return d
}
func c19Tup(rule string, dir, file *c19Val) *c19Val {
	return &c19Val{K: "tuple", HasIf: rule != "", If: rule, Dir: dir, File: file}
}

func c19StrLit(s string) string {
	var sb strings.Builder
	sb.WriteByte('\'')
	for _, r := range s {
		switch r {
		case '\'':
			sb.WriteString(`\'`)
		case '\\':
			sb.WriteString(`\\`)
		case '\n':
			sb.WriteString(`\n`)
		case '\t':
			sb.WriteString(`\t`)
		default:
			sb.WriteRune(r)
		}
	}
	sb.WriteByte('\'')
	return sb.String()
}

// src renders the value as arr.ai source.
func (v *c19Val) src() string {
	switch v.K {
	case "str":
		return c19StrLit(v.S)
	case "bytes":
		parts := make([]string, len(v.S))
		for i := 0; i < len(v.S); i++ {
			parts[i] = strconv.Itoa(int(v.S[i]))
		}
		return "<<" + strings.Join(parts, ", ") + ">>"
	case "empty":
		return "{}"
	case "dict":
		if len(v.Ents) == 0 {
			return "{}"
		}
		parts := make([]string, len(v.Ents))
		for i, e := range v.Ents {
			k := e.KeySrc
			if k == "" {
				k = c19StrLit(e.Key)
			}
			parts[i] = k + ": " + e.V.src()
		}
		return "{" + strings.Join(parts, ", ") + "}"
	case "tuple":
		var parts []string
		if v.HasIf {
			if v.IfRaw != "" {
				parts = append(parts, "ifExists: "+v.IfRaw)
			} else {
				parts = append(parts, "ifExists: "+c19StrLit(v.If))
			}
		}
		if v.Dir != nil {
			parts = append(parts, "dir: "+v.Dir.src())
		}
		if v.File != nil {
			parts = append(parts, "file: "+v.File.src())
		}
		if v.Extra {
			parts = append(parts, "mode: 420")
		}
		return "(" + strings.Join(parts, ", ") + ")"
	case "num":
		return "5"
	case "set":
		return "{1, 2}"
	case "arr":
		return "['p', 'q']"
	case "fn":
		return `\z z`
	}
	return "??" + v.K
}

// shape renders the value with contents abstracted (for counting distinct description shapes).
func (v *c19Val) shape() string {
	switch v.K {
	case "dict":
		parts := make([]string, len(v.Ents))
		for i, e := range v.Ents {
			k := c19KeyClass(e)
			parts[i] = k + ":" + e.V.shape()
		}
		sort.Strings(parts)
		return "{" + strings.Join(parts, ",") + "}"
	case "tuple":
		s := "("
		if v.HasIf {
			if v.IfRaw != "" {
				s += "if=BAD "
			} else {
				s += "if=" + v.If + " "
			}
		}
		if v.Dir != nil {
			s += "dir=" + v.Dir.shape() + " "
		}
		if v.File != nil {
			s += "file=" + v.File.shape() + " "
		}
		if v.Extra {
			s += "extra"
		}
		return strings.TrimSpace(s) + ")"
	}
	return v.K
}

func c19KeyClass(e c19Ent) string {
	switch {
	case e.KeySrc != "":
		return "nonstring-key"
	case e.Key == "":
		return "empty-key"
	case e.Key == "." || e.Key == "..":
		return "dot-key"
	case strings.Contains(e.Key, ".."):
		return "dotdot-key"
	case strings.Contains(e.Key, "/"):
		return "slash-key"
	}
	return "k"
}

// ---- static scan: invalid members and undetermined features, anywhere in the description ----

type c19Scan struct {
	invalid map[string]int // invalid-member kind -> smallest depth seen (1 = entry of the top dict)
	open    map[string]bool
}

func (s *c19Scan) bad(kind string, depth int) {
	if d, ok := s.invalid[kind]; !ok || depth < d {
		s.invalid[kind] = depth
	}
}

func c19ScanTop(v *c19Val) *c19Scan {
	s := &c19Scan{invalid: map[string]int{}, open: map[string]bool{}}
	if v.K != "dict" && v.K != "empty" {
		// --out=dir: the result "must be a recursively nested dict"
		if v.K == "tuple" {
			s.open["top-tuple"] = true
			s.scanEntry(v, 0)
		} else {
			s.bad("top-not-dict", 0)
		}
		return s
	}
	s.scanDict(v, 1)
	return s
}

func (s *c19Scan) scanDict(d *c19Val, depth int) {
	for _, e := range d.Ents {
		switch c19KeyClass(e) {
		case "nonstring-key":
			s.bad("nonstring-key", depth)
		case "empty-key", "dot-key", "dotdot-key", "slash-key":
			// are such keys names of entries? undetermined; only confinement is judged
			s.open[c19KeyClass(e)] = true
		}
		s.scanEntry(e.V, depth)
	}
}

func (s *c19Scan) scanEntry(v *c19Val, depth int) {
	switch v.K {
	case "str", "bytes", "empty":
	case "dict":
		s.scanDict(v, depth+1)
	case "tuple":
		if v.HasIf && v.IfRaw != "" {
			s.bad("bad-ifExists", depth)
		}
		if v.Dir != nil {
			switch v.Dir.K {
			case "dict":
				s.scanDict(v.Dir, depth+1)
			case "empty":
			default:
				s.bad("bad-dir-payload", depth)
			}
		}
		if v.File != nil {
			switch v.File.K {
			case "str", "bytes", "empty":
			default:
				s.bad("bad-file-payload", depth)
			}
		}
		rule := v.If
		switch {
		case v.Dir != nil && v.File != nil:
			s.open["file-and-dir"] = true
		case v.Dir == nil && v.File == nil && !(v.HasIf && rule == "remove"):
			s.open["no-payload"] = true
		case v.HasIf && rule == "remove" && (v.Dir != nil || v.File != nil):
			s.open["remove-with-payload"] = true
		case v.HasIf && rule == "merge" && v.File != nil:
			s.open["merge-file"] = true
		}
		if v.Extra {
			s.open["extra-attr"] = true
		}
	default: // num, set, arr, fn
		s.bad("entry-"+v.K, depth)
	}
}

func c19Keys(m map[string]int) []string {
	ks := make([]string, 0, len(m))
	for k := range m {
		ks = append(ks, k)
	}
	sort.Strings(ks)
	return ks
}

func c19BoolKeys(m map[string]bool) []string {
	ks := make([]string, 0, len(m))
	for k := range m {
		ks = append(ks, k)
	}
	sort.Strings(ks)
	return ks
}

// ---- reference semantics: expected tree ----

// c19Model is the result of applying a statically valid, determinate description to a pre-state.
type c19Model struct {
	tree     c19Tree
	refused  []string          // paths where ifExists:'fail' met an existing entry
	conflict map[string]string // path -> kind conflict under an implicit/merge rule (see below)
	label    map[string]string // path -> kind of the description entry that governs it (attribution)
	rules    map[string]bool   // coverage: rule x what existed
}

// A kind conflict is an existing file where a directory is described (implicit or explicit merge),
// or an existing directory where a plain string / (file:) without ifExists is described. The docs'
// defaults say "merge" resp. "replace"; whether merge may turn a file into a directory, and whether
// the implicit replace may delete a whole directory, is not spelled out. Both readings are
// accepted: success with the entry substituted (the tree then contains exactly what is
// described), or an error that leaves everything unchanged.

func c19Apply(pre c19Tree, root string, d *c19Val) *c19Model {
	m := &c19Model{tree: pre.clone(), conflict: map[string]string{}, label: map[string]string{}, rules: map[string]bool{}}
	m.applyDir(root, d, "top")
	return m
}

func (m *c19Model) existed(p string) string {
	n, ok := m.tree[p]
	switch {
	case !ok:
		return "absent"
	case n.Kind == 'd':
		return "dir"
	}
	return "file"
}

// applyDir overlays directory description d at p (merge semantics).
func (m *c19Model) applyDir(p string, d *c19Val, label string) {
	m.label[p] = label
	switch m.existed(p) {
	case "absent":
		m.tree[p] = c19Node{Kind: 'd'}
	case "file":
		m.conflict[p] = "dir-over-file"
		m.tree.removeAll(p)
		m.tree[p] = c19Node{Kind: 'd'}
	}
	if d.K != "dict" {
		return // `{}`: empty directory description
	}
	for _, e := range d.Ents {
		m.applyEntry(path.Join(p, e.Key), e.V)
	}
}

func (m *c19Model) writeFile(p string, f *c19Val, label string) {
	m.label[p] = label
	m.tree.removeAll(p)
	m.tree[p] = c19Node{Kind: 'f', Data: f.S}
}

func (m *c19Model) applyEntry(p string, v *c19Val) {
	ex := m.existed(p)
	switch v.K {
	case "str", "bytes", "empty":
		m.rules["plain-file/"+ex] = true
		if ex == "dir" {
			m.conflict[p] = "file-over-dir"
		}
		m.writeFile(p, v, v.K)
	case "dict":
		m.rules["plain-dir/"+ex] = true
		m.applyDir(p, v, "dict")
	case "tuple":
		rule := v.If
		if !v.HasIf {
			if v.Dir != nil {
				rule = "merge"
			} else {
				rule = "replace"
			}
		}
		lbl := "tuple"
		if v.HasIf {
			lbl += ":" + v.If
		}
		if v.Dir != nil {
			lbl += ":dir"
		} else if v.File != nil {
			lbl += ":file"
		}
		m.rules[strings.TrimPrefix(lbl, "tuple:")+"/"+ex] = true
		create := func() {
			if v.Dir != nil {
				m.applyDir(p, v.Dir, lbl)
			} else {
				m.writeFile(p, v.File, lbl)
			}
		}
		if ex == "absent" {
			if rule != "remove" {
				create()
			} else {
				m.label[p] = lbl
			}
			return
		}
		switch rule {
		case "remove":
			m.label[p] = lbl
			m.tree.removeAll(p)
		case "ignore":
			m.label[p] = lbl
		case "fail":
			m.label[p] = lbl
			m.refused = append(m.refused, p)
		case "replace":
			if !v.HasIf && ex == "dir" {
				m.conflict[p] = "file-over-dir" // implicit replace of a whole directory by a file
			}
			m.tree.removeAll(p)
			create()
		case "merge":
			m.applyDir(p, v.Dir, lbl)
		}
	}
}

// labelFor attributes a path to the deepest description entry at or above it.
func (m *c19Model) labelFor(p string) string {
	for q := p; q != "/" && q != "."; q = path.Dir(q) {
		if l, ok := m.label[q]; ok {
			return l
		}
	}
	return "none"
}

// ---- scenario ----

// c19Scenario is one run of the command: output mode + PATH, description, pre-existing tree.
type c19Scenario struct {
	Mode string // "dir:" "d:" "file:" "f:" ":" "" (spelling of the --out flag)
	Path string // absolute
	Desc *c19Val
	Pre  c19Tree
	Tag  string // family of the generator that produced it
}

func (sc *c19Scenario) out() string { return sc.Mode + sc.Path }

func (sc *c19Scenario) isDir() bool { return sc.Mode == "dir:" || sc.Mode == "d:" }

func (sc *c19Scenario) key() string {
	return sc.out() + " <- " + sc.Desc.src() + " | " + sc.Pre.String()
}

// preShape abstracts the pre-state to what matters for the rules: for every existing path its
// kind, relative to PATH, with file contents dropped.
func (sc *c19Scenario) shape() string {
	var parts []string
	for _, p := range sc.Pre.paths() {
		if !c19Under(p, sc.Path) {
			continue
		}
		parts = append(parts, strings.TrimPrefix(p, sc.Path)+string(sc.Pre[p].Kind))
	}
	m := "file"
	if sc.isDir() {
		m = "dir"
	}
	return fmt.Sprintf("%s %s | pre[%s]", m, sc.Desc.shape(), strings.Join(parts, " "))
}

// ---- context walk: where the invalid members sit relative to rules and the pre-state ----

// c19Ctx describes, for signature hazards and backend selection, how the description meets the
// pre-state: which explicit rule (with "existing"/"absent" target) governs each invalid member,
// whether a described entry meets an existing entry of the other kind, and whether a remove /
// replace targets a path that is a proper string prefix of a sibling's path (MemMapFs.RemoveAll
// deletes by string prefix; scenarios with that feature are not run on the mem backend).
type c19Ctx struct {
	under        map[string]bool // e.g. "ignore-existing", "replace-absent", "plain"
	kindMismatch bool
	prefixRemove bool
	oddKeys      bool
	keyClasses   map[string]bool
	described    []string // every path the description names
	removals     []string // targets of remove / replace rules
}

func c19Context(sc *c19Scenario) *c19Ctx {
	c := &c19Ctx{under: map[string]bool{}, keyClasses: map[string]bool{}}
	if n, ok := sc.Pre[sc.Path]; ok && (n.Kind == 'f') == sc.isDir() {
		c.kindMismatch = true
	}
	if !sc.isDir() {
		return c
	}
	switch sc.Desc.K {
	case "dict":
		c.walkDict(sc, sc.Desc, sc.Path, "plain")
	case "tuple":
		c.walkEntry(sc, sc.Desc, sc.Path, "plain")
	}
	for _, p := range c.removals {
		for q := range sc.Pre {
			if strings.HasPrefix(q, p) && !c19Under(q, p) {
				c.prefixRemove = true
			}
		}
		for _, q := range c.described {
			if strings.HasPrefix(q, p) && !c19Under(q, p) {
				c.prefixRemove = true
			}
		}
	}
	return c
}

func (c *c19Ctx) walkDict(sc *c19Scenario, d *c19Val, p, ctx string) {
	for _, e := range d.Ents {
		kc := c19KeyClass(e)
		if kc == "nonstring-key" {
			c.under[ctx] = true
			continue
		}
		if kc != "k" {
			c.oddKeys = true
			c.keyClasses[kc] = true
		}
		c.walkEntry(sc, e.V, path.Join(p, e.Key), ctx)
	}
}

func (c *c19Ctx) walkEntry(sc *c19Scenario, v *c19Val, p, ctx string) {
	n, exists := sc.Pre[p]
	c.described = append(c.described, p)
	want := byte(0)
	switch v.K {
	case "str", "bytes", "empty":
		want = 'f'
	case "dict":
		want = 'd'
		c.walkDict(sc, v, p, ctx)
	case "tuple":
		if v.HasIf {
			rule := v.If
			if v.IfRaw != "" {
				rule = "badrule"
				c.under[ctx] = true
			}
			if exists {
				ctx = rule + "-existing"
			} else {
				ctx = rule + "-absent"
			}
			if rule == "remove" || rule == "replace" { // also when absent: RemoveAll of a missing name still deletes by prefix there
				c.removals = append(c.removals, p)
			}
		}
		if v.Dir != nil {
			want = 'd'
			switch v.Dir.K {
			case "dict":
				c.walkDict(sc, v.Dir, p, ctx)
			case "empty":
			default:
				c.under[ctx] = true
			}
		}
		if v.File != nil {
			if want == 0 {
				want = 'f'
			}
			switch v.File.K {
			case "str", "bytes", "empty":
			default:
				c.under[ctx] = true
			}
		}
	default:
		c.under[ctx] = true
	}
	if exists && want != 0 && n.Kind != want {
		c.kindMismatch = true
	}
}
