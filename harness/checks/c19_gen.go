package checks

import (
	"path"
	"sync"

	"verif/core"
)

// ---------------------------------------------------------------------------------------------
// C19 workload: a seed-independent core corpus (every entry shape x position x pre-existing state
// of the target x sibling context, plus file-mode and top-level scenarios) and a seeded random
// slice of depth-<=3 dictionaries against random pre-existing trees over the same few names
// (so that collisions between description and pre-state are the norm, not the exception).

const (
	c19Root     = "/w/out"   // PATH of --out=dir:PATH
	c19FilePath = "/w/f.txt" // PATH of --out=file:PATH
)

// c19Outside is always present outside PATH: what `confined` watches.
func c19Outside() c19Tree {
	return c19Tree{
		"/w":              {Kind: 'd'},
		"/w/sib.txt":      {Kind: 'f', Data: "outside-S"},
		"/w/sibdir":       {Kind: 'd'},
		"/w/sibdir/f.txt": {Kind: 'f', Data: "outside-F"},
		"/w/outer":        {Kind: 'f', Data: "prefix-sibling of /w/out"},
		"/other":          {Kind: 'd'},
		"/other/o.txt":    {Kind: 'f', Data: "outside-O"},
	}
}

func c19NSDict(keySrc string, v *c19Val, more ...interface{}) *c19Val {
	d := c19Dict(more...)
	d.Ents = append(d.Ents, c19Ent{KeySrc: keySrc, V: v})
	return d
}

func c19BadIf(raw string, dir, file *c19Val) *c19Val {
	return &c19Val{K: "tuple", HasIf: true, IfRaw: raw, Dir: dir, File: file}
}

var c19Rules = []string{"merge", "replace", "ignore", "fail", "remove"}

// c19EntryShapes is the list of entry values of the core corpus (valid, invalid and undetermined).
func c19EntryShapes() []*c19Val {
	nf := func() *c19Val { return c19Str("new-A") }
	files := func() []*c19Val { return []*c19Val{c19Str("new-A"), c19Bytes("\x00\xffb\n"), c19Empty()} }
	dirs := func() []*c19Val {
		return []*c19Val{c19Empty(), c19Dict("x", c19Str("new-x")),
			c19Dict("x", c19Dict("y", c19Str("new-y")), "z", c19Str("new-z"))}
	}
	var out []*c19Val
	// plain files and directories
	out = append(out, c19Str("new-A"), c19Str("héllo ✓ 'q' \\ \n"), c19Bytes("\x00\xffb\n"), c19Empty(), c19Str(""))
	out = append(out, dirs()[1], dirs()[2], c19Dict("x", c19Empty()), c19Dict("x", c19Bytes("\x01")))
	// tuples: every ifExists value (and none) x every payload (and none)
	for _, rule := range append([]string{""}, c19Rules...) {
		out = append(out, c19Tup(rule, nil, nil))
		for _, f := range files() {
			out = append(out, c19Tup(rule, nil, f))
		}
		for _, d := range dirs() {
			out = append(out, c19Tup(rule, d, nil))
		}
	}
	out = append(out, c19Tup("", dirs()[1], nf()), c19Tup("replace", dirs()[1], nf()))
	ex := c19Tup("", nil, nf())
	ex.Extra = true
	out = append(out, ex)
	// rules nested inside a directory payload / a plain dict
	for _, inner := range c19Rules {
		var pay *c19Val
		if inner != "remove" {
			pay = c19Str("new-x")
		}
		out = append(out, c19Dict("x", c19Tup(inner, nil, pay)))
		for _, outer := range []string{"", "merge", "replace", "ignore"} {
			out = append(out, c19Tup(outer, c19Dict("x", c19Tup(inner, nil, pay), "z", c19Str("new-z")), nil))
		}
	}
	for _, inner := range []string{"merge", "replace", "remove"} {
		var pay *c19Val
		if inner != "remove" {
			pay = c19Dict("y", c19Str("new-y"))
		}
		for _, outer := range []string{"", "merge", "replace"} {
			out = append(out, c19Tup(outer, c19Dict("x", c19Tup(inner, pay, nil)), nil))
		}
	}
	// invalid members: unsupported entry kinds
	for _, k := range []string{"num", "set", "arr", "fn"} {
		out = append(out, c19Bad(k))
		out = append(out, c19Dict("x", c19Bad(k)))
		out = append(out, c19Dict("x", c19Str("new-x"), "y", c19Dict("q", c19Bad(k))))
		for _, rule := range []string{"", "merge", "replace", "ignore", "fail"} {
			out = append(out, c19Tup(rule, c19Dict("x", c19Bad(k), "z", c19Str("new-z")), nil))
		}
	}
	// non-string keys
	out = append(out, c19NSDict("1", c19Str("v")), c19NSDict("(k: 1)", c19Str("v"), "x", c19Str("new-x")),
		c19Dict("x", c19NSDict("2", c19Str("v"))))
	for _, rule := range []string{"", "merge", "replace", "ignore", "fail"} {
		out = append(out, c19Tup(rule, c19NSDict("1", c19Str("v"), "z", c19Str("new-z")), nil))
	}
	// bad ifExists values
	for _, raw := range []string{"'bogus'", "'Merge'", "7", "{}", "['merge']"} {
		out = append(out, c19BadIf(raw, nil, nf()), c19BadIf(raw, dirs()[1], nil))
	}
	out = append(out, c19BadIf("'bogus'", nil, nil), c19Dict("x", c19BadIf("'bogus'", nil, nf())),
		c19Tup("replace", c19Dict("x", c19BadIf("7", nil, nf())), nil))
	// bad payloads under every rule
	for _, rule := range append([]string{""}, c19Rules...) {
		for _, k := range []string{"num", "str", "arr", "set"} {
			v := c19Bad(k)
			if k == "str" {
				v = c19Str("not-a-dict")
			}
			out = append(out, c19Tup(rule, v, nil))
		}
		if rule == "merge" {
			continue
		}
		for _, k := range []string{"num", "set", "arr", "dict"} {
			v := c19Bad(k)
			if k == "dict" {
				v = c19Dict("x", c19Str("not-a-file"))
			}
			out = append(out, c19Tup(rule, nil, v))
		}
	}
	return out
}

var c19OddKeys = []string{"", ".", "..", "../esc", "../sib.txt", "../sibdir", "../../other/o.txt", "sub/leaf", "/abs",
	"x/../../esc2", "../out/back", "../outer"}

type c19Placement struct {
	pos, pre, sib int
}

// c19Place builds a scenario with entry value v under key `a` at the given position.
func c19Place(v *c19Val, pl c19Placement) *c19Scenario {
	top := c19Dict()
	var tdir string
	switch pl.pos {
	case 0:
		top.Ents = append(top.Ents, c19Ent{Key: "a", V: v})
		tdir = c19Root
	case 1:
		top.Ents = append(top.Ents, c19Ent{Key: "d", V: c19Dict("a", v)})
		tdir = c19Root + "/d"
	case 2:
		top.Ents = append(top.Ents, c19Ent{Key: "d", V: c19Dict("e", c19Dict("a", v))})
		tdir = c19Root + "/d/e"
	case 3:
		top.Ents = append(top.Ents, c19Ent{Key: "d", V: c19Tup("", c19Dict("a", v), nil)})
		tdir = c19Root + "/d"
	}
	target := tdir + "/a"
	pre := c19Outside()
	if pl.pre != 0 {
		pre.mkdirAll(tdir)
		pre[tdir+"/keep.txt"] = c19Node{Kind: 'f', Data: "old-keep"}
		pre[tdir+"/ab"] = c19Node{Kind: 'f', Data: "old-ab (name has the prefix a)"}
	}
	switch pl.pre {
	case 2:
		pre[target] = c19Node{Kind: 'f', Data: "old-a"}
	case 3:
		pre[target] = c19Node{Kind: 'd'}
	case 4:
		pre[target] = c19Node{Kind: 'd'}
		pre[target+"/x"] = c19Node{Kind: 'f', Data: "old-x"}
		pre[target+"/w"] = c19Node{Kind: 'f', Data: "old-w"}
		pre[target+"/sub"] = c19Node{Kind: 'd'}
		pre[target+"/sub/q"] = c19Node{Kind: 'f', Data: "old-q"}
	}
	if pl.sib >= 1 {
		top.Ents = append(top.Ents, c19Ent{Key: "b", V: c19Str("new-b")},
			c19Ent{Key: "n", V: c19Dict("f", c19Str("new-f"))})
	}
	if pl.sib == 2 {
		top.Ents = append(top.Ents, c19Ent{Key: "r", V: c19Tup("remove", nil, nil)})
		if pl.pre != 0 {
			pre[c19Root+"/b"] = c19Node{Kind: 'f', Data: "old-b"}
			pre[c19Root+"/r"] = c19Node{Kind: 'd'}
			pre[c19Root+"/r/g"] = c19Node{Kind: 'f', Data: "old-g"}
		}
	}
	return &c19Scenario{Mode: "dir:", Path: c19Root, Desc: top, Pre: pre, Tag: "core"}
}

var (
	c19CoreOnce sync.Once
	c19CoreQ    []func() *c19Scenario
	c19CoreT    []func() *c19Scenario
)

// c19Core returns the seed-independent corpus as constructors (thorough adds the positions x sibling
// contexts the quick tier thins out). Scenarios are built on demand: every worker process
// enumerates the list, but runs only its share.
func c19Core(thorough bool) []func() *c19Scenario {
	c19CoreOnce.Do(func() {
		shapes := c19EntryShapes()
		for si, v := range shapes {
			for pos := 0; pos < 4; pos++ {
				for pre := 0; pre < 5; pre++ {
					for sib := 0; sib < 3; sib++ {
						sc := func() *c19Scenario { return c19Place(v, c19Placement{pos, pre, sib}) }
						c19CoreT = append(c19CoreT, sc)
						// quick: all shapes x pre-states at depth 1 with every sibling context;
						// deeper positions rotate through the sibling contexts
						if pos == 0 || (si+pos+pre)%3 == sib {
							c19CoreQ = append(c19CoreQ, sc)
						}
					}
				}
			}
		}
		var extra []func() *c19Scenario
		// odd keys (escape attempts, separators, empty): confinement
		oddVals := func() []*c19Val {
			return []*c19Val{c19Str("pwn"), c19Dict("f", c19Str("pwn")), c19Tup("remove", nil, nil),
				c19Tup("replace", nil, c19Str("pwn")), c19Tup("replace", c19Dict("f", c19Str("pwn")), nil),
				c19Tup("ignore", nil, c19Str("pwn")), c19Tup("fail", nil, c19Str("pwn"))}
		}
		for _, k := range c19OddKeys {
			for _, v := range oddVals() {
				for depth := 0; depth < 2; depth++ {
					for pre := 0; pre < 3; pre++ {
						extra = append(extra, func() *c19Scenario {
							// siblings that create, overwrite, delete and change the kind of entries: whatever
							// happens to the odd key, none of it may remain if the command reports an error
							inner := c19Dict(k, v, "b", c19Str("new-b"), "r", c19Tup("remove", nil, nil),
								"t", c19Tup("replace", c19Dict("f", c19Str("new-f")), nil))
							top := inner
							tdir := c19Root
							if depth == 1 {
								top = c19Dict("d", inner)
								tdir = c19Root + "/d"
							}
							p := c19Outside()
							if pre >= 1 {
								p.mkdirAll(tdir)
								p[tdir+"/keep.txt"] = c19Node{Kind: 'f', Data: "old-keep"}
								p[tdir+"/b"] = c19Node{Kind: 'f', Data: "old-b"}
								p[tdir+"/r"] = c19Node{Kind: 'd'}
								p[tdir+"/r/g"] = c19Node{Kind: 'f', Data: "old-g"}
								p[tdir+"/t"] = c19Node{Kind: 'f', Data: "old-t"}
								p[c19Root+"/back"] = c19Node{Kind: 'f', Data: "old-back"}
							}
							if pre == 1 {
								p[tdir+"/sub"] = c19Node{Kind: 'd'} // 'sub/leaf' has a parent
							}
							return &c19Scenario{Mode: "dir:", Path: c19Root, Desc: top, Pre: p, Tag: "odd-key"}
						})
					}
				}
			}
		}
		// top-level values x state of PATH itself
		tops := []*c19Val{c19Empty(), c19Dict("a", c19Str("new-a")), c19Dict("a", c19Dict("x", c19Str("new-x")), "b", c19Empty()),
			c19Bad("num"), c19Str("abc"), c19Bad("arr"), c19Bad("set"), c19Bad("fn"), c19Bytes("ab"),
			c19Tup("", c19Dict("a", c19Str("new-a")), nil), c19Dict("a", c19Bad("num")), c19Dict("a", c19Bad("set")),
			c19NSDict("1", c19Str("v"), "a", c19Str("new-a")), c19NSDict("(k: 1)", c19Str("v")), c19NSDict("['a']", c19Dict("x", c19Str("v")), "b", c19Str("new-b"))}
		for _, v := range tops {
			for pre := 0; pre < 5; pre++ {
				for _, mode := range []string{"dir:", "d:"} {
					extra = append(extra, func() *c19Scenario {
						p := c19Outside()
						root := c19Root
						switch pre {
						case 1:
							p[root] = c19Node{Kind: 'd'}
						case 2:
							p[root] = c19Node{Kind: 'd'}
							p[root+"/a"] = c19Node{Kind: 'f', Data: "old-a"}
							p[root+"/keep.txt"] = c19Node{Kind: 'f', Data: "old-keep"}
							p[root+"/zz"] = c19Node{Kind: 'd'}
						case 3:
							p[root] = c19Node{Kind: 'f', Data: "PATH is a file"}
						case 4:
							root = "/w/nope/out" // parent of PATH does not exist
						}
						return &c19Scenario{Mode: mode, Path: root, Desc: v, Pre: p, Tag: "top"}
					})
				}
			}
		}
		// --out=file:PATH in every spelling
		fvals := []*c19Val{c19Str("hello\n"), c19Str("héllo ✓"), c19Bytes("\x00\x01\xfe\xff"), c19Empty(), c19Str(""),
			c19Bad("num"), c19Bad("set"), c19Bad("arr"), c19Dict("a", c19Str("x")), c19Tup("", nil, c19Str("x")), c19Bad("fn")}
		for _, v := range fvals {
			for pre := 0; pre < 4; pre++ {
				for _, mode := range []string{"file:", "f:", ":", ""} {
					extra = append(extra, func() *c19Scenario {
						p := c19Outside()
						fp := c19FilePath
						switch pre {
						case 1:
							p[fp] = c19Node{Kind: 'f', Data: "old file content, longer than the new one"}
						case 2:
							p[fp] = c19Node{Kind: 'd'}
							p[fp+"/inner"] = c19Node{Kind: 'f', Data: "old-inner"}
						case 3:
							fp = "/w/nope/f.txt"
						}
						return &c19Scenario{Mode: mode, Path: fp, Desc: v, Pre: p, Tag: "file-mode"}
					})
				}
			}
		}
		c19CoreQ = append(c19CoreQ, extra...)
		c19CoreT = append(c19CoreT, extra...)
	})
	if thorough {
		return c19CoreT
	}
	return c19CoreQ
}

// ---- random slice ----

var c19Names = []string{"a", "b", "ab", "d", "n", "x", "y", "a.txt"}

func c19RandFile(r *core.Rng) *c19Val {
	switch r.Intn(6) {
	case 0:
		return c19Bytes(string([]byte{byte(r.Intn(256)), 0, byte(r.Intn(256))}))
	case 1:
		return c19Empty()
	case 2:
		return c19Str("ünï " + string(rune('A'+r.Intn(26))) + "\n")
	}
	return c19Str("new-" + string(rune('a'+r.Intn(26))))
}

func c19RandDict(r *core.Rng, depth int, allowEmpty bool) *c19Val {
	n := r.Range(1, 3)
	if allowEmpty && r.Chance(1, 6) {
		return c19Empty()
	}
	d := c19Dict()
	names := append([]string{}, c19Names...)
	core.Shuffle(r, names)
	for _, k := range names[:n] {
		d.Ents = append(d.Ents, c19Ent{Key: k, V: c19RandEntry(r, depth)})
	}
	return d
}

// c19RandEntry draws a valid entry value; depth is the number of directory levels still allowed.
func c19RandEntry(r *core.Rng, depth int) *c19Val {
	w := r.Intn(100)
	switch {
	case w < 30 || depth <= 0 && w < 55:
		return c19RandFile(r)
	case w < 55:
		return c19RandDict(r, depth-1, false)
	}
	// tuple
	rule := ""
	if r.Chance(4, 5) {
		rule = c19Rules[r.Intn(len(c19Rules))]
	}
	if rule == "remove" {
		return c19Tup(rule, nil, nil)
	}
	if rule != "merge" && (depth <= 0 || r.Chance(1, 2)) {
		return c19Tup(rule, nil, c19RandFile(r))
	}
	if depth <= 0 {
		return c19Tup(rule, c19Empty(), nil)
	}
	return c19Tup(rule, c19RandDict(r, depth-1, true), nil)
}

func c19RandInvalid(r *core.Rng) *c19Val {
	switch r.Intn(9) {
	case 0:
		return c19Bad("num")
	case 1:
		return c19Bad("set")
	case 2:
		return c19Bad("arr")
	case 3:
		return c19Bad("fn")
	case 4:
		return c19BadIf(core.Pick(r, []string{"'bogus'", "7", "{}"}), nil, c19RandFile(r))
	case 5:
		return c19Tup(core.Pick(r, []string{"", "replace", "ignore", "fail", "merge"}), c19Bad(core.Pick(r, []string{"num", "arr", "set"})), nil)
	case 6:
		return c19Tup(core.Pick(r, []string{"", "replace", "ignore", "fail"}), nil, c19Bad(core.Pick(r, []string{"num", "arr", "set"})))
	case 7:
		return c19NSDict(core.Pick(r, []string{"1", "(k: 1)", "['k']"}), c19RandFile(r), "x", c19RandFile(r))
	}
	return c19Dict("x", c19Bad(core.Pick(r, []string{"num", "set", "fn"})))
}

// c19Dicts collects every dict node of a description (where an entry can be planted).
func c19Dicts(v *c19Val, acc *[]*c19Val) {
	switch v.K {
	case "dict":
		*acc = append(*acc, v)
		for _, e := range v.Ents {
			c19Dicts(e.V, acc)
		}
	case "tuple":
		if v.Dir != nil {
			c19Dicts(v.Dir, acc)
		}
	}
}

func c19RandPre(r *core.Rng, t c19Tree, dir string, depth int) {
	for _, k := range c19Names {
		if !r.Chance(2, 5) {
			continue
		}
		p := path.Join(dir, k)
		if depth > 0 && r.Chance(1, 2) {
			t[p] = c19Node{Kind: 'd'}
			c19RandPre(r, t, p, depth-1)
		} else {
			t[p] = c19Node{Kind: 'f', Data: "old-" + k}
		}
	}
}

func c19Random(r *core.Rng) *c19Scenario {
	d := c19RandDict(r, 2, false)
	tag := "random"
	if r.Chance(35, 100) {
		var ds []*c19Val
		c19Dicts(d, &ds)
		host := ds[r.Intn(len(ds))]
		bad := c19RandInvalid(r)
		i := r.Intn(len(host.Ents) + 1)
		if i < len(host.Ents) && r.Chance(1, 2) {
			host.Ents[i].V = bad
		} else {
			key := "q" + string(rune('0'+r.Intn(3)))
			host.Ents = append(host.Ents, c19Ent{})
			copy(host.Ents[i+1:], host.Ents[i:])
			host.Ents[i] = c19Ent{Key: key, V: bad}
		}
		tag = "random-invalid"
	} else if r.Chance(6, 100) {
		var ds []*c19Val
		c19Dicts(d, &ds)
		host := ds[r.Intn(len(ds))]
		host.Ents = append(host.Ents, c19Ent{Key: core.Pick(r, c19OddKeys), V: c19RandEntry(r, 0)})
		tag = "random-odd-key"
	}
	pre := c19Outside()
	switch w := r.Intn(100); {
	case w < 12:
	case w < 15:
		pre[c19Root] = c19Node{Kind: 'f', Data: "PATH is a file"}
	case w < 22:
		pre[c19Root] = c19Node{Kind: 'd'}
	default:
		pre[c19Root] = c19Node{Kind: 'd'}
		c19RandPre(r, pre, c19Root, 2)
	}
	mode := "dir:"
	if r.Chance(1, 5) {
		mode = "d:"
	}
	return &c19Scenario{Mode: mode, Path: c19Root, Desc: d, Pre: pre, Tag: tag}
}
