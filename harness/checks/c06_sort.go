package checks

import (
	"context"
	"fmt"
	"os"
	"sort"
	"strconv"
	"strings"

	"verif/core"

	"github.com/arr-ai/arrai/rel"
)

// Sort-based constructs (orderby, order, keyed orderby, max, min, rank, printed member order,
// tuple attribute print order) judged against the implementation's own `<`.

// c06Members picks the member slots of sort list l (model-determined; dead slots drop out later).
func c06Members(cfg *core.Config, w *c06World, l int) []int {
	r := core.NewRng(cfg.Seed, 6, 2, uint64(l))
	n := w.n
	var idx []int
	pick := func(k int, ok func(*c06Op) bool) {
		for tries := 0; len(idx) < k && tries < 40*k; tries++ {
			x := r.Intn(n)
			if ok == nil || ok(w.ops[x]) {
				idx = append(idx, x)
			}
		}
	}
	wantClass := func(op *c06Op) string { return c06Class(op.Want) }
	switch l % 6 {
	case 0:
		pick(r.Range(2, 6), nil)
	case 1, 4:
		first := w.ops[r.Intn(n)]
		cl := wantClass(first)
		idx = append(idx, first.Idx)
		pick(r.Range(3, 8), func(o *c06Op) bool { return wantClass(o) == cl })
	case 2:
		pick(r.Range(7, 14), nil)
	case 3:
		simple := map[string]bool{"num": true, "tuple": true, "str": true, "arr": true, "plain-set": true, "dict": true, "neg": true}
		pick(r.Range(3, 9), func(o *c06Op) bool { return simple[wantClass(o)] })
	case 5: // tuples only (rank over real tuples, sugar tuples sharing one set)
		pick(r.Range(2, 7), func(o *c06Op) bool { return o.Want.K == 't' })
	}
	seenEnc := map[string]bool{}
	var out []int
	for _, x := range idx {
		op := w.ops[x]
		if !op.OK || seenEnc[op.Got.Enc] {
			continue
		}
		seenEnc[op.Got.Enc] = true
		out = append(out, x)
	}
	return out
}

func c06Names(k int) []string {
	ns := make([]string, k)
	for i := range ns {
		ns[i] = "m" + strconv.Itoa(i)
	}
	return ns
}

// c06BuildSrcs: three programs building the set of the bound members m0..m{k-1}.
func c06BuildSrcs(k, rot int) [3]string {
	ns := c06Names(k)
	b1 := "{" + strings.Join(ns, ", ") + "}"
	b2 := "{}"
	for i := k - 1; i >= 0; i-- {
		b2 = "(" + b2 + " with " + ns[i] + ")"
	}
	var parts []string
	for i := 0; i < k; i++ {
		parts = append(parts, "{"+ns[(i+rot)%k]+"}")
	}
	b3 := "(" + strings.Join(parts, " | ") + ")"
	return [3]string{b1, b2, b3}
}

// c06Items reads the items of an array-valued result in index order through the exported API.
func c06Items(v rel.Value) (items []rel.Value, ok bool) {
	defer func() {
		if r := recover(); r != nil {
			items, ok = nil, false
		}
	}()
	s, is := v.(rel.Set)
	if !is {
		return nil, false
	}
	type it struct {
		at float64
		v  rel.Value
	}
	var its []it
	for e := s.Enumerator(); e.MoveNext(); {
		t, is := e.Current().(rel.Tuple)
		if !is {
			return nil, false
		}
		at, ok1 := t.Get("@")
		x, ok2 := t.Get("@item")
		n, ok3 := at.(rel.Number)
		if !ok1 || !ok2 || !ok3 {
			return nil, false
		}
		its = append(its, it{n.Float64(), x})
	}
	sort.SliceStable(its, func(i, j int) bool { return its[i].at < its[j].at })
	for i, x := range its {
		if x.at != float64(i) {
			return nil, false
		}
		items = append(items, x.v)
	}
	return items, true
}

type c06Sorter struct {
	cfg     *core.Config
	w       *c06World
	j       *judge
	res     *core.CaseResult
	data    *c06Data
	members []int          // slots
	byEnc   map[string]int // denotation -> position in members
	via     string
	viaHz   []string
	modelHz []string // core.HazardList over the members' actual denotations
	binds   []interface{}
}

func (s *c06Sorter) hz() []string {
	if s.viaHz != nil {
		return s.viaHz
	}
	return append(s.kindsHz(), s.modelHz...)
}

func (s *c06Sorter) kindsHz() []string {
	cls := map[string]bool{}
	for _, m := range s.members {
		cls[s.w.ops[m].Class] = true
	}
	var cs []string
	for c := range cls {
		cs = append(cs, c)
	}
	sort.Strings(cs)
	if len(cs) > 3 {
		return []string{"kinds:many"}
	}
	return []string{"kinds:" + strings.Join(cs, ",")}
}

func (s *c06Sorter) memberSrcs() []string {
	var out []string
	for _, m := range s.members {
		out = append(out, s.w.ops[m].src())
	}
	return out
}

func (s *c06Sorter) report(entry, mode, site, detail string) {
	s.j.report("C06.sort", entry, mode, site, s.via, s.hz(), detail+" | members: "+strings.Join(s.memberSrcs(), " ; "),
		map[string]interface{}{"members": s.memberSrcs(), "entry": entry})
}

func (s *c06Sorter) count(entry string) { s.data.Counts[entry]++ }

// lessLive evaluates a < b on live values: 1 true, 0 false, 2 panic/error.
func (s *c06Sorter) lessLive(a, b rel.Value) uint8 {
	s.res.Evals++
	o := core.EvalT("a < b", "a", a, "b", b)
	if !o.OK() {
		return 2
	}
	return c06BoolState(o.Val)
}

// positions maps result values to member positions by denotation; ok=false if not a permutation.
func (s *c06Sorter) positions(vals []rel.Value) (pos []int, why string) {
	seen := map[int]bool{}
	for _, v := range vals {
		d, pi := core.SafeDenote(v)
		if pi != nil {
			return nil, "element cannot be enumerated"
		}
		p, ok := s.byEnc[d.Enc]
		if !ok {
			return nil, "element " + clipS(core.Src(d), 80) + " is not a member"
		}
		if seen[p] {
			return nil, "member " + clipS(core.Src(d), 80) + " occurs twice"
		}
		seen[p] = true
		pos = append(pos, p)
	}
	if len(pos) != len(s.members) {
		return nil, fmt.Sprintf("%d elements for %d members", len(pos), len(s.members))
	}
	return pos, ""
}

func (s *c06Sorter) seqStr(pos []int) string {
	parts := make([]string, len(pos))
	for i, p := range pos {
		parts[i] = strconv.Itoa(s.members[p])
	}
	return strings.Join(parts, ",")
}

func (s *c06Sorter) outcomeFail(entry, expr string, o core.Outcome) bool {
	switch {
	case o.Panic != nil:
		s.report(entry, "panic", o.Panic.Sig(), expr+" => panic: "+o.Panic.Msg)
		return true
	case o.Err != nil:
		// value-or-error is C10's question; an error outcome is not a sort to be judged
		s.res.Cover = append(s.res.Cover, "sort/"+entry+"-returned-error")
		return true
	}
	return false
}

// judgeSeq: vals must be a permutation of the members, strictly <-increasing (all pairs).
func (s *c06Sorter) judgeSeq(entry, expr string, vals []rel.Value) (string, bool) {
	pos, why := s.positions(vals)
	if pos == nil {
		s.report(entry, "not-a-permutation", "", expr+": "+why)
		return "", false
	}
	for p := 0; p < len(vals); p++ {
		for q := p + 1; q < len(vals); q++ {
			if st := s.lessLive(vals[p], vals[q]); st != 1 {
				if st == 2 {
					continue // the comparison itself fails: trichotomy's finding
				}
				s.report(entry, "not-sorted", "", fmt.Sprintf("%s yields sequence %s in which element %d is not < element %d (%s vs %s)", expr, s.seqStr(pos), p, q,
					s.w.ops[s.members[pos[p]]].src(), s.w.ops[s.members[pos[q]]].src()))
				return s.seqStr(pos), false
			}
		}
	}
	return s.seqStr(pos), true
}

func c06SortCase(cfg *core.Config, w *c06World, l, run int) core.CaseResult {
	members := c06Members(cfg, w, l)
	res := core.CaseResult{Key: fmt.Sprintf("sort:%d", l), NonTrivial: len(members) >= 2 && run == 0}
	data := &c06Data{Kind: "sort", List: l + 1, Run: run, Seqs: map[string]string{}, Counts: map[string]int{}}
	res.Data = data
	if len(members) < 2 {
		res.Cover = append(res.Cover, "sort/too-few-live-members")
		res.Evals = 1
		return res
	}
	s := &c06Sorter{cfg: cfg, w: w, res: &res, data: data, members: members, byEnc: map[string]int{},
		j: &judge{prop: "C06", res: &res, seen: map[string]bool{}}}
	for p, m := range members {
		s.byEnc[w.ops[m].Got.Enc] = p
		s.binds = append(s.binds, "m"+strconv.Itoa(p), w.ops[m].Val)
	}
	s.via, s.viaHz = w.via(members)
	{
		var ms []MV
		for _, m := range members {
			ms = append(ms, w.ops[m].Got)
		}
		s.modelHz = core.HazardList(ms...)
	}
	data.Via, data.Hz, data.Members = s.via, s.hz(), s.memberSrcs()
	if s.via == "pairs-ok" {
		res.Cover = append(res.Cover, "sort/members-pairwise-ok")
	} else {
		res.Cover = append(res.Cover, "sort/members-with-failing-pair")
	}
	k := len(members)
	var wantMS []MV
	for _, m := range members {
		wantMS = append(wantMS, w.ops[m].Got)
	}
	want := mset(wantMS...)
	r := core.NewRng(cfg.Seed, 6, 3, uint64(l))
	srcs := c06BuildSrcs(k, 1+r.Intn(k))
	var sets []rel.Value
	var setSrc []string
	for bi, src := range srcs {
		res.Evals++
		o := core.EvalT(src, s.binds...)
		if !o.OK() {
			res.Cover = append(res.Cover, fmt.Sprintf("sort/build%d-failed", bi+1))
			continue
		}
		d, pi := core.SafeDenote(o.Val)
		if pi != nil || d.Enc != want.Enc {
			res.Cover = append(res.Cover, fmt.Sprintf("sort/build%d-deviates", bi+1))
			continue
		}
		if bs, ok := o.Val.(rel.Set); ok {
			if cnt, pi := safeCount(bs); pi != nil || cnt != len(want.S) {
				res.Cover = append(res.Cover, fmt.Sprintf("sort/build%d-count-deviates", bi+1))
				continue
			}
		}
		sets = append(sets, o.Val)
		setSrc = append(setSrc, src)
		res.Cover = append(res.Cover, "sortset/"+core.TypeName(o.Val))
	}
	if len(sets) == 0 {
		res.Cover = append(res.Cover, "sort/no-set-built")
		return res
	}
	// --- orderby . on every construction; all must give the same sequence
	var seqs []string
	allOK := true
	for si, set := range sets {
		expr := setSrc[si] + " orderby ."
		o := core.EvalT("s orderby .", "s", set)
		res.Evals++
		if s.outcomeFail("orderby", expr, o) {
			allOK = false
			continue
		}
		items, ok := c06Items(o.Val)
		if !ok {
			s.report("orderby", "not-an-array", "", expr+" => "+outcomeText(o))
			allOK = false
			continue
		}
		s.count("orderby")
		seq, _ := s.judgeSeq("orderby", expr, items)
		seqs = append(seqs, seq)
		if si == 0 {
			data.Seqs["orderby"] = seq
			// same set sorted again
			o2 := core.EvalT("s orderby .", "s", set)
			if items2, ok := c06Items(o2.Val); o2.OK() && ok {
				if p2, _ := s.positions(items2); p2 != nil && s.seqStr(p2) != seq && seq != "" {
					s.report("orderby", "differs-on-rerun", "", fmt.Sprintf("%s evaluated twice: %s then %s", expr, seq, s.seqStr(p2)))
				}
			}
		}
	}
	if allOK && len(seqs) >= 2 {
		s.count("rebuild")
		for si := 1; si < len(seqs); si++ {
			if seqs[si] != seqs[0] && seqs[si] != "" && seqs[0] != "" {
				s.report("rebuild", "differs-by-construction", "", fmt.Sprintf("%s orderby . = %s but %s orderby . = %s", setSrc[0], seqs[0], setSrc[si], seqs[si]))
				break
			}
		}
	}
	set := sets[0]
	// --- order \a \b a < b
	{
		expr := setSrc[0] + ` order \a \b a < b`
		o := core.EvalT(`s order \a \b a < b`, "s", set)
		res.Evals++
		if !s.outcomeFail("order", expr, o) {
			if items, ok := c06Items(o.Val); ok {
				s.count("order")
				seq, _ := s.judgeSeq("order", expr, items)
				data.Seqs["order"] = seq
			} else {
				s.report("order", "not-an-array", "", expr+" => "+outcomeText(o))
			}
		}
	}
	// --- keyed orderby / max: keys are other live operands (ties allowed)
	{
		pool := r.Range(2, k+2)
		keySlots := make([]int, k)
		var poolSlots []int
		for len(poolSlots) < pool {
			poolSlots = append(poolSlots, w.live[r.Intn(len(w.live))])
		}
		for p := range keySlots {
			keySlots[p] = poolSlots[r.Intn(len(poolSlots))]
		}
		kf := rel.NewNativeFunction("c06key", func(_ context.Context, v rel.Value) (rel.Value, error) {
			d, pi := core.SafeDenote(v)
			if pi != nil {
				return nil, fmt.Errorf("c06key: cannot denote argument")
			}
			p, ok := s.byEnc[d.Enc]
			if !ok {
				return nil, fmt.Errorf("c06key: argument is not a member")
			}
			return w.ops[keySlots[p]].Val, nil
		})
		kvia, khz := w.via(keySlots)
		saveVia, saveHz := s.via, s.viaHz
		s.via, s.viaHz = kvia, khz
		keyDesc := func() string {
			var ks []string
			for p := range keySlots {
				ks = append(ks, fmt.Sprintf("%s -> %s", w.ops[members[p]].src(), w.ops[keySlots[p]].src()))
			}
			return " with key " + strings.Join(ks, " ; ")
		}
		expr := setSrc[0] + " orderby k(.)"
		o := core.EvalT("s orderby k(.)", "s", set, "k", kf)
		res.Evals++
		if !s.outcomeFail("orderby-key", expr+keyDesc(), o) {
			if items, ok := c06Items(o.Val); ok {
				pos, why := s.positions(items)
				if pos == nil {
					s.report("orderby-key", "not-a-permutation", "", expr+": "+why+keyDesc())
				} else {
					s.count("orderby-key")
					bad := false
					for p := 0; p < len(pos) && !bad; p++ {
						for q := p + 1; q < len(pos) && !bad; q++ {
							// no inversion: the later key must not be < the earlier key
							if w.lt(keySlots[pos[q]], keySlots[pos[p]]) == 1 {
								bad = true
								s.report("orderby-key", "not-sorted", "", fmt.Sprintf("%s yields %s: key of element %d is < key of element %d%s", expr, s.seqStr(pos), q, p, keyDesc()))
							}
						}
					}
					// sequence of KEYS is what two runs must agree on (ties may legally permute values)
					var kseq []string
					for _, p := range pos {
						kseq = append(kseq, strconv.Itoa(keySlots[p]))
					}
					if kvia == "pairs-ok" {
						data.Seqs["orderby-key"] = c06CollapseEqual(w, kseq, keySlots, pos)
					}
				}
			} else {
				s.report("orderby-key", "not-an-array", "", expr+" => "+outcomeText(o))
			}
		}
		// max / min of the keys
		for _, mm := range []string{"max", "min"} {
			o := core.EvalT("s "+mm+" k(.)", "s", set, "k", kf)
			res.Evals++
			expr := setSrc[0] + " " + mm + " k(.)"
			if s.outcomeFail(mm+"-key", expr+keyDesc(), o) {
				continue
			}
			d, pi := core.SafeDenote(o.Val)
			hit := -1
			for _, ks := range keySlots {
				if pi == nil && w.ops[ks].Got.Enc == d.Enc {
					hit = ks
				}
			}
			if hit < 0 {
				s.report(mm+"-key", "not-a-key", "", expr+" => "+outcomeText(o)+keyDesc())
				continue
			}
			s.count(mm + "-key")
			for _, ks := range keySlots {
				if mm == "max" && w.lt(hit, ks) == 1 || mm == "min" && w.lt(ks, hit) == 1 {
					s.report(mm+"-key", "not-extreme", "", fmt.Sprintf("%s => %s but key %s is %s it%s", expr, w.ops[hit].src(), w.ops[ks].src(),
						map[string]string{"max": "greater than", "min": "less than"}[mm], keyDesc()))
					break
				}
			}
		}
		s.via, s.viaHz = saveVia, saveHz
	}
	// --- max . / min .
	for _, mm := range []string{"max", "min"} {
		expr := setSrc[0] + " " + mm + " ."
		o := core.EvalT("s "+mm+" .", "s", set)
		res.Evals++
		if s.outcomeFail(mm, expr, o) {
			continue
		}
		pos, why := -1, ""
		if d, pi := core.SafeDenote(o.Val); pi == nil {
			if p, ok := s.byEnc[d.Enc]; ok {
				pos = p
			} else {
				why = core.Src(d)
			}
		}
		if pos < 0 {
			s.report(mm, "not-a-member", "", expr+" => "+clipS(why, 100))
			continue
		}
		s.count(mm)
		data.Seqs[mm] = strconv.Itoa(members[pos])
		for p, m := range members {
			if p == pos {
				continue
			}
			var st uint8
			if mm == "max" {
				st = s.lessLive(w.ops[m].Val, o.Val)
			} else {
				st = s.lessLive(o.Val, w.ops[m].Val)
			}
			if st == 0 {
				s.report(mm, "not-extreme", "", fmt.Sprintf("%s => %s but member %s is not %s it", expr, w.ops[members[pos]].src(), w.ops[m].src(),
					map[string]string{"max": "less than", "min": "greater than"}[mm]))
				break
			}
		}
	}
	// --- rank: number of tuples with a lower ranking value; second ranker = id (must restart at 0)
	{
		var rows []string
		vslot := []int{}
		for p := 0; p < k; p++ {
			rows = append(rows, fmt.Sprintf("(id: %d, v: m%d)", p, p))
			vslot = append(vslot, members[p])
		}
		dup := r.Intn(k)
		rows = append(rows, fmt.Sprintf("(id: %d, v: m%d)", k, dup)) // a tie
		vslot = append(vslot, members[dup])
		src := "{" + strings.Join(rows, ", ") + "} rank (r: .v, q: .id)"
		o := core.EvalT(src, s.binds...)
		res.Evals++
		if !s.outcomeFail("rank", src, o) {
			s.judgeRank(src, o.Val, vslot)
		}
	}
	// --- printed member order
	for si, set := range sets {
		if si > 0 && si != 1+l%2 {
			continue
		}
		s.judgeRepr(setSrc[si], set, si == 0)
	}
	if l%29 == 3 && run == 0 {
		res.Sample = fmt.Sprintf("sort list %d: members {%s} built as %s / with-chain / union, sorted by orderby ., order, orderby k(.), max, min, rank, printed order; orderby sequence (slots) %s",
			l, strings.Join(s.memberSrcs(), " ; "), srcs[0], data.Seqs["orderby"])
	}
	return res
}

// c06CollapseEqual renders a key sequence with every key replaced by the smallest key slot that
// is `=` to it, so that legal permutations among ties do not count as a difference between runs.
func c06CollapseEqual(w *c06World, kseq []string, keySlots, pos []int) string {
	out := make([]string, len(pos))
	for i, p := range pos {
		rep := keySlots[p]
		for _, ks := range keySlots {
			if ks < rep && w.cellGet(ks, keySlots[p]).v[1] == 1 {
				rep = ks
			}
		}
		out[i] = strconv.Itoa(rep)
	}
	return strings.Join(out, ",")
}

func (s *c06Sorter) judgeRank(src string, v rel.Value, vslot []int) {
	defer func() {
		if r := recover(); r != nil {
			s.report("rank", "unreadable-result", "", fmt.Sprintf("%s => result cannot be read: %v", src, r))
		}
	}()
	set, ok := v.(rel.Set)
	if !ok {
		s.report("rank", "not-a-set", "", src+" => non-set")
		return
	}
	n := 0
	for e := set.Enumerator(); e.MoveNext(); {
		t, ok := e.Current().(rel.Tuple)
		if !ok {
			s.report("rank", "not-a-relation", "", src)
			return
		}
		id, ok1 := t.Get("id")
		rv, ok2 := t.Get("r")
		qv, ok3 := t.Get("q")
		idn, ok4 := id.(rel.Number)
		rn, ok5 := rv.(rel.Number)
		qn, ok6 := qv.(rel.Number)
		if !(ok1 && ok2 && ok3 && ok4 && ok5 && ok6) || int(idn.Float64()) < 0 || int(idn.Float64()) >= len(vslot) {
			s.report("rank", "not-a-relation", "", src+" => "+clipS(fmt.Sprint(t), 100))
			return
		}
		n++
		me := int(idn.Float64())
		lower, undecided := 0, false
		for other := range vslot {
			switch s.w.lt(vslot[other], vslot[me]) {
			case 1:
				lower++
			case 2, 3:
				undecided = true
			}
		}
		if undecided {
			continue
		}
		if int(rn.Float64()) != lower {
			s.report("rank", "wrong-rank", "", fmt.Sprintf("%s: tuple id %d (v = %s) has r = %v but %d tuples have a lower v", src, me, s.w.ops[vslot[me]].src(), rn.Float64(), lower))
			return
		}
		if int(qn.Float64()) != me {
			s.report("rank", "wrong-rank-second-attr", "", fmt.Sprintf("%s: tuple id %d has q = %v (rank by id must be %d)", src, me, qn.Float64(), me))
			return
		}
	}
	if n != len(vslot) {
		s.report("rank", "rows-lost", "", fmt.Sprintf("%s => %d rows for %d input tuples", src, n, len(vslot)))
		return
	}
	s.count("rank")
}

// ---------------------------------------------------------------------------------------------
// printed order

// c06SplitTop splits s at top-level occurrences of sep (outside brackets and quotes).
func c06SplitTop(s, sep string) ([]string, bool) {
	var out []string
	depth, start := 0, 0
	for i := 0; i < len(s); {
		c := s[i]
		switch {
		case c == '\'' || c == '"' || c == '`':
			q := c
			i++
			for i < len(s) && s[i] != q {
				if s[i] == '\\' && q != '`' {
					i++
				}
				i++
			}
			if i >= len(s) {
				return nil, false
			}
			i++
			continue
		case c == '(' || c == '[' || c == '{':
			depth++
		case c == ')' || c == ']' || c == '}':
			depth--
			if depth < 0 {
				return nil, false
			}
		case c == '<' && strings.HasPrefix(s[i:], "<<"):
			depth++
			i += 2
			continue
		case c == '>' && strings.HasPrefix(s[i:], ">>"):
			depth--
			i += 2
			continue
		}
		if depth == 0 && strings.HasPrefix(s[i:], sep) {
			out = append(out, s[start:i])
			i += len(sep)
			start = i
			continue
		}
		i++
	}
	if depth != 0 {
		return nil, false
	}
	return append(out, s[start:]), true
}

// c06PrintedMembers turns the print-out of a set into one source text per member, in printed
// order. form: "generic", "dict", "rel"; ok=false when the print-out is not of a judged form.
func c06PrintedMembers(repr string) (elems []string, form string, ok bool) {
	if len(repr) < 2 || repr[0] != '{' || repr[len(repr)-1] != '}' {
		return nil, "sequence-or-scalar", false
	}
	body := repr[1 : len(repr)-1]
	if strings.TrimSpace(body) == "" {
		return nil, "empty", false
	}
	if body[0] == '|' {
		end := strings.Index(body[1:], "|")
		if end < 0 {
			return nil, "rel", false
		}
		heading := strings.Split(body[1:1+end], ", ")
		rest := strings.TrimSpace(body[end+2:])
		rows, ok := c06SplitTop(rest, ", ")
		if !ok {
			return nil, "rel", false
		}
		for _, row := range rows {
			if len(row) < 2 || row[0] != '(' || row[len(row)-1] != ')' {
				return nil, "rel", false
			}
			cells, ok := c06SplitTop(row[1:len(row)-1], ", ")
			if !ok || len(cells) != len(heading) {
				return nil, "rel", false
			}
			var attrs []string
			for i, h := range heading {
				attrs = append(attrs, core.AttrName(strings.TrimSpace(h))+": "+cells[i])
			}
			elems = append(elems, "("+strings.Join(attrs, ", ")+")")
		}
		return elems, "rel", true
	}
	parts, ok := c06SplitTop(body, ", ")
	if !ok {
		return nil, "generic", false
	}
	form = "generic"
	for _, p := range parts {
		kv, ok := c06SplitTop(p, ": ")
		if !ok {
			return nil, form, false
		}
		switch len(kv) {
		case 1:
			elems = append(elems, p)
		case 2:
			form = "dict"
			elems = append(elems, "(@: "+kv[0]+", @value: "+kv[1]+")")
		default:
			return nil, form, false
		}
	}
	return elems, form, true
}

// c06Printed is the outcome of reading a set's print-out back.
type c06Printed struct {
	Status  string // "judged" | "not-judged:<why>"
	Form    string
	Repr    string
	Members []rel.Value // live members in printed order (when judged)
	Encs    []string
	BadP    int // first printed position p whose member is not < the member at BadQ (-1: sorted)
	BadQ    int
	Delta   string
	Hz      []string
	Evals   int
}

// c06JudgePrinted prints the set, splits the text into member texts, maps each back to a live
// member (by denotation) and checks with the live `<` that the printed sequence is increasing.
func c06JudgePrinted(set rel.Value) (out c06Printed, pi *core.PanicInfo) {
	out.BadP, out.BadQ = -1, -1
	repr, pi := core.Repr(set)
	out.Evals++
	if pi != nil {
		return out, pi
	}
	out.Repr = repr
	elems, form, ok := c06PrintedMembers(repr)
	out.Form = form
	if !ok {
		out.Status = "not-judged:form-" + form
		return out, nil
	}
	live := map[string]rel.Value{}
	n := 0
	okEnum := func() (ok bool) {
		defer func() {
			if r := recover(); r != nil {
				ok = false
			}
		}()
		ss, is := set.(rel.Set)
		if !is {
			return false
		}
		for e := ss.Enumerator(); e.MoveNext(); {
			d := core.Denote(e.Current())
			live[d.Enc] = e.Current()
			n++
		}
		return true
	}()
	if !okEnum || n != len(live) {
		out.Status = "not-judged:members-not-enumerable"
		return out, nil
	}
	seen := map[string]bool{}
	for _, e := range elems {
		o := build(e)
		if !o.OK() {
			out.Status = "not-judged:element-unreadable"
			if os.Getenv("C06_DEBUG") != "" {
				fmt.Fprintf(os.Stderr, "c06: unreadable element %q of %s\n", e, repr)
			}
			return out, nil
		}
		d, dpi := core.SafeDenote(o.Val)
		if dpi != nil {
			out.Status = "not-judged:element-unreadable"
			return out, nil
		}
		m, ok := live[d.Enc]
		if !ok || seen[d.Enc] {
			out.Status = "not-judged:readback-differs"
			if os.Getenv("C06_DEBUG") != "" {
				fmt.Fprintf(os.Stderr, "c06: readback differs: element %q of %s\n", e, repr)
			}
			return out, nil
		}
		seen[d.Enc] = true
		out.Members = append(out.Members, m)
		out.Encs = append(out.Encs, d.Enc)
	}
	if len(out.Members) != n {
		out.Status = "not-judged:readback-differs"
		return out, nil
	}
	out.Status = "judged"
	ev := func(src string, a, b rel.Value) uint8 {
		out.Evals++
		o := core.EvalT(src, "a", a, "b", b)
		if !o.OK() {
			return 2
		}
		return c06BoolState(o.Val)
	}
	for p := 0; p < len(out.Members); p++ {
		for q := p + 1; q < len(out.Members); q++ {
			a, b := out.Members[p], out.Members[q]
			if ev("a < b", a, b) != 0 {
				continue // true, or the comparison itself fails (trichotomy's finding)
			}
			out.BadP, out.BadQ = p, q
			f := c06Fail(false, 0, ev("a = b", a, b), ev("b < a", a, b))
			if f == "" {
				out.Delta = "pair-ok"
			} else {
				out.Delta = "pair-fails:" + f
			}
			da, _ := core.SafeDenote(a)
			db, _ := core.SafeDenote(b)
			out.Hz = c06PairHz(da, db)
			return out, nil
		}
	}
	return out, nil
}

func (s *c06Sorter) judgeRepr(setSrc string, set rel.Value, record bool) {
	pr, pi := c06JudgePrinted(set)
	s.res.Evals += pr.Evals
	if pi != nil {
		s.report("repr", "panic", pi.Sig(), "printing "+setSrc+" panics: "+pi.Msg)
		return
	}
	if pr.Status != "judged" {
		s.res.Cover = append(s.res.Cover, "repr/"+pr.Status)
		return
	}
	s.res.Cover = append(s.res.Cover, "repr/"+pr.Form)
	s.count("repr")
	var pos []int
	for _, e := range pr.Encs {
		if p, ok := s.byEnc[e]; ok {
			pos = append(pos, p)
		}
	}
	seq := s.seqStr(pos)
	if record && len(pos) == len(pr.Encs) {
		s.data.Seqs["repr"] = seq
	}
	if pr.BadP >= 0 {
		s.j.report("C06.sort", "repr", "not-sorted", "", pr.Delta, pr.Hz,
			fmt.Sprintf("%s prints as %s: printed member %d is not < printed member %d (slots %s) | members: %s", setSrc, clipS(pr.Repr, 200), pr.BadP, pr.BadQ, seq, strings.Join(s.memberSrcs(), " ; ")),
			map[string]interface{}{"members": s.memberSrcs(), "entry": "repr"})
	}
}

// ---------------------------------------------------------------------------------------------
// tuple attribute print order

var c06AttrNames = []string{"a", "b", "ab", "B", "_", "@", "@item", "@x", "x y", "it's", "z", "A1", "é", "a-b", "0"}

func c06AttrCase(cfg *core.Config, w *c06World, n int) core.CaseResult {
	res := core.CaseResult{Key: "attrs", NonTrivial: true}
	data := &c06Data{Kind: "attrs", Counts: map[string]int{}}
	res.Data = data
	j := &judge{prop: "C06", res: &res, seen: map[string]bool{}}
	type tc struct {
		src string
		v   rel.Value
	}
	var tuples []tc
	for _, i := range w.live {
		op := w.ops[i]
		if op.Got.K == 't' && len(op.Got.T) >= 2 {
			tuples = append(tuples, tc{op.src(), op.Val})
		}
	}
	r := core.NewRng(cfg.Seed, 6, 4)
	for x := 0; x < cfg.Pick(60, 600); x++ {
		k := r.Range(2, 5)
		names := append([]string{}, c06AttrNames...)
		core.Shuffle(r, names)
		var parts []string
		for _, nm := range names[:k] {
			parts = append(parts, core.AttrName(nm)+": "+strconv.Itoa(r.Intn(3)))
		}
		src := "(" + strings.Join(parts, ", ") + ")"
		if x%3 == 1 { // merged in the opposite order
			src = "((" + strings.Join(parts[1:], ", ") + ") +> (" + parts[0] + "))"
		}
		o := build(src)
		if !o.OK() {
			res.Cover = append(res.Cover, "attrs/build-failed")
			continue
		}
		tuples = append(tuples, tc{src, o.Val})
	}
	for _, t := range tuples {
		res.Evals++
		repr, pi := core.Repr(t.v)
		if pi != nil {
			j.report("C06.sort", "repr-attrs", "panic", pi.Sig(), "", nil, "printing "+t.src+" panics", map[string]string{"tuple": t.src})
			continue
		}
		if len(repr) < 2 || repr[0] != '(' || repr[len(repr)-1] != ')' {
			res.Cover = append(res.Cover, "attrs/not-judged")
			continue
		}
		parts, ok := c06SplitTop(repr[1:len(repr)-1], ", ")
		if !ok {
			res.Cover = append(res.Cover, "attrs/not-judged")
			continue
		}
		var names []rel.Value
		var texts []string
		good := true
		for _, p := range parts {
			kv, ok := c06SplitTop(p, ": ")
			if !ok || len(kv) != 2 {
				good = false
				break
			}
			nm := kv[0]
			var nv rel.Value
			if nm != "" && (nm[0] == '"' || nm[0] == '\'') {
				o := build(nm)
				if !o.OK() {
					good = false
					break
				}
				nv = o.Val
			} else {
				nv = rel.NewString([]rune(nm))
			}
			names = append(names, nv)
			texts = append(texts, nm)
		}
		d, _ := core.SafeDenote(t.v)
		if !good || len(names) != len(d.T) {
			res.Cover = append(res.Cover, "attrs/not-judged")
			continue
		}
		data.Counts["judged"]++
		res.SubKeys = append(res.SubKeys, "attrs:"+strings.Join(texts, ","))
		for p := 0; p < len(names); p++ {
			for q := p + 1; q < len(names); q++ {
				o := core.EvalT("a < b", "a", names[p], "b", names[q])
				res.Evals++
				if !o.OK() || c06BoolState(o.Val) != 1 {
					j.report("C06.sort", "repr-attrs", "not-sorted", "", "", nil,
						fmt.Sprintf("%s prints as %s: attribute name %s is printed before %s but %s < %s is not true", t.src, repr, texts[p], texts[q], texts[p], texts[q]),
						map[string]string{"tuple": t.src})
				}
			}
		}
	}
	res.Sample = fmt.Sprintf("tuple attribute print order of %d tuples, e.g. %s", len(tuples), tuples[len(tuples)-1].src)
	return res
}
