// probe evaluates each argument as arr.ai source and prints outcome (debug helper).
package main

import (
	"fmt"
	"os"

	"verif/core"
)

func main() {
	for _, src := range os.Args[1:] {
		o := core.EvalSrc(src)
		switch {
		case o.Panic != nil:
			fmt.Printf("%s\n  => PANIC %s @ %s\n", src, o.Panic.Msg, o.Panic.Site)
		case o.Err != nil:
			fmt.Printf("%s\n  => ERROR %s\n", src, core.ErrText(o.Err))
		default:
			r, _ := core.Repr(o.Val)
			d, _ := core.SafeDenote(o.Val)
			fmt.Printf("%s\n  => %s   [%s]  %s\n", src, r, core.TypeName(o.Val), core.Src(d))
		}
	}
}
