// vcheck is the single executable of the verification harness: driver, worker and replay modes.
package main

import (
	"encoding/json"
	"flag"
	"fmt"
	"os"
	"path/filepath"
	"runtime"
	"strconv"
	"time"

	_ "verif/checks"
	"verif/core"
)

func main() {
	// C07: a worker child may be told to run under a given hash-seed vector. This must happen before
	// any hashed value is built (DESIGN §2 "Knob: hash seeds").
	core.InstallHashSeedsFromEnv()
	if len(os.Args) < 3 {
		fmt.Fprintln(os.Stderr, "usage: vcheck run|worker|replay <ID> [flags]; known:", core.IDs())
		os.Exit(2)
	}
	mode, id := os.Args[1], os.Args[2]
	fs := flag.NewFlagSet(mode, flag.ExitOnError)
	tier := fs.String("tier", envOr("VERIF_TIER", "quick"), "quick|thorough")
	seedS := fs.String("seed", envOr("VERIF_SEED", "1"), "seed")
	shard := fs.Int("shard", 0, "")
	stride := fs.Int("stride", 1, "")
	start := fs.Int("start", 0, "")
	out := fs.String("out", "", "")
	replay := fs.String("replay", "", "replay file")
	workers := fs.Int("workers", envInt("VERIF_WORKERS", 0), "")
	fs.Parse(os.Args[3:])
	seed, err := strconv.ParseUint(*seedS, 10, 64)
	if err != nil {
		seed = core.Hash64(*seedS)
	}
	if *tier != "quick" && *tier != "thorough" {
		*tier = "quick"
	}
	root := envOr("VERIF_ROOT", "/verif")
	w := *workers
	if w <= 0 {
		w = runtime.NumCPU()
		if w > 16 {
			w = 16
		}
	}
	cfg := &core.Config{ID: id, Tier: *tier, Seed: seed, Workers: w, Root: root,
		RunDir: filepath.Join(root, "run", id), Race: core.RaceEnabled}
	chk := core.Lookup(id)
	if chk == nil {
		fmt.Fprintln(os.Stderr, "unknown check", id, "known:", core.IDs())
		os.Exit(2)
	}
	switch mode {
	case "worker":
		os.Exit(core.RunWorker(cfg, chk, *shard, *stride, *start, *out))
	case "run":
		t0 := time.Now()
		agg := core.Drive(cfg, chk)
		os.Exit(core.Conclude(cfg, chk, agg, t0))
	case "replay":
		b, err := os.ReadFile(*replay)
		if err != nil {
			fmt.Fprintln(os.Stderr, err)
			os.Exit(2)
		}
		var r struct {
			Tier string `json:"tier"`
			Seed uint64 `json:"seed"`
			Case int    `json:"case"`
		}
		if err := json.Unmarshal(b, &r); err != nil {
			fmt.Fprintln(os.Stderr, err)
			os.Exit(2)
		}
		cfg.Tier, cfg.Seed = r.Tier, r.Seed
		res := chk.RunCase(cfg, r.Case)
		fmt.Printf("replay %s case %d (tier=%s seed=%d): %d violation(s)\n", id, r.Case, r.Tier, r.Seed, len(res.Viols))
		for _, v := range res.Viols {
			fmt.Printf("  %s\n  %s\n", v.Sig.String(), v.Detail)
		}
		if len(res.Viols) > 0 {
			os.Exit(1)
		}
	default:
		fmt.Fprintln(os.Stderr, "unknown mode", mode)
		os.Exit(2)
	}
}

func envInt(k string, d int) int {
	if n, err := strconv.Atoi(os.Getenv(k)); err == nil {
		return n
	}
	return d
}

func envOr(k, d string) string {
	if v := os.Getenv(k); v != "" {
		return v
	}
	return d
}
