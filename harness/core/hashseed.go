package core

import (
	"encoding/hex"
	"fmt"
	"os"

	"github.com/arr-ai/hash"
)

// HashSeedNote describes what InstallHashSeedsFromEnv did ("natural", "installed", or an error text).
var HashSeedNote = "natural"

// InstallHashSeedsFromEnv installs the seed vector given in VERIF_HASH_SEEDS (hex) into
// github.com/arr-ai/hash. Called as the first statement of main.
func InstallHashSeedsFromEnv() {
	h := os.Getenv("VERIF_HASH_SEEDS")
	if h == "" {
		return
	}
	b, err := hex.DecodeString(h)
	if err != nil {
		HashSeedNote = "bad hex: " + err.Error()
		return
	}
	a, k := hash.GetSeeds()
	switch {
	case a != nil:
		buf := make([]byte, len(a))
		for i := range buf {
			buf[i] = b[i%len(b)] ^ byte(i/len(b)*0x5b)
		}
		err = hash.SetSeeds(buf, nil)
	default:
		ks := make([]uintptr, len(k))
		for i := range ks {
			for j := 0; j < 8; j++ {
				ks[i] = ks[i]<<8 | uintptr(b[(i*8+j)%len(b)])
			}
			ks[i] |= 1
		}
		err = hash.SetSeeds(nil, ks)
	}
	if err != nil {
		HashSeedNote = "SetSeeds: " + err.Error()
		return
	}
	HashSeedNote = "installed"
}

// HashSeedFingerprint is a short hex digest of the seeds in force (evidence: distinct vectors seen).
func HashSeedFingerprint() string {
	a, k := hash.GetSeeds()
	s := fmt.Sprint(a, k)
	return fmt.Sprintf("%016x", Hash64(s))
}

// SeedVectorHex derives a 128-byte seed vector from (seed, shard).
func SeedVectorHex(seed uint64, shard int) string {
	r := NewRng(seed, 7007, uint64(shard))
	b := make([]byte, 128)
	for i := 0; i < len(b); i += 8 {
		x := r.Next()
		for j := 0; j < 8; j++ {
			b[i+j] = byte(x >> (8 * j))
		}
	}
	return hex.EncodeToString(b)
}
