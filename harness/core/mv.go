// Package core holds the shared machinery of the runtime monitors: the reference model of
// arr.ai data (denotations), deterministic PRNG, safe evaluation, the driver/worker process
// protocol, known-finding matching and evidence writing. See /verif/DESIGN.md §3-§5.
package core

import (
	"fmt"
	"math"
	"sort"
	"strconv"
	"strings"

	"github.com/arr-ai/arrai/rel"
)

// MV is a model value: Num | Tup | Set (| opaque Fn leaf). Equality is on Enc.
type MV struct {
	K   byte // 'n','t','s','f'
	N   float64
	T   map[string]MV
	S   []MV // sorted by Enc, deduplicated
	Enc string
}

func Num(f float64) MV {
	if f == 0 {
		f = 0 // normalise -0
	}
	return MV{K: 'n', N: f, Enc: "n" + strconv.FormatFloat(f, 'g', -1, 64)}
}

func Fn() MV { return MV{K: 'f', Enc: "f"} }

func Tup(m map[string]MV) MV {
	ks := make([]string, 0, len(m))
	for k := range m {
		ks = append(ks, k)
	}
	sort.Strings(ks)
	var sb strings.Builder
	sb.WriteString("t(")
	for _, k := range ks {
		sb.WriteString(strconv.Quote(k))
		sb.WriteByte(':')
		sb.WriteString(m[k].Enc)
		sb.WriteByte(',')
	}
	sb.WriteString(")")
	return MV{K: 't', T: m, Enc: sb.String()}
}

// T2 builds a tuple from alternating name, value arguments.
func T2(kv ...interface{}) MV {
	m := map[string]MV{}
	for i := 0; i+1 < len(kv); i += 2 {
		m[kv[i].(string)] = kv[i+1].(MV)
	}
	return Tup(m)
}

func Set(ms ...MV) MV {
	seen := make(map[string]MV, len(ms))
	for _, m := range ms {
		seen[m.Enc] = m
	}
	ks := make([]string, 0, len(seen))
	for k := range seen {
		ks = append(ks, k)
	}
	sort.Strings(ks)
	out := make([]MV, 0, len(ks))
	for _, k := range ks {
		out = append(out, seen[k])
	}
	return MV{K: 's', S: out, Enc: "s{" + strings.Join(ks, ",") + "}"}
}

var (
	MEmpty = Set()
	MTrue  = Set(Tup(map[string]MV{}))
)

func MBool(b bool) MV {
	if b {
		return MTrue
	}
	return MEmpty
}

func (m MV) Eq(o MV) bool { return m.Enc == o.Enc }
func (m MV) IsSet() bool  { return m.K == 's' }
func (m MV) Has(e MV) bool {
	i := sort.Search(len(m.S), func(i int) bool { return m.S[i].Enc >= e.Enc })
	return i < len(m.S) && m.S[i].Enc == e.Enc
}

// Pair builds (@: at, payload: v).
func Pair(at MV, payload string, v MV) MV { return Tup(map[string]MV{"@": at, payload: v}) }

// MStr / MArr / MBytes / MDict build the definitional denotations of sugar.
func MStr(s string) MV { return MStrOff(s, 0) }
func MStrOff(s string, off int) MV {
	var ms []MV
	for i, r := range []rune(s) {
		ms = append(ms, Pair(Num(float64(i+off)), "@char", Num(float64(r))))
	}
	return Set(ms...)
}
func MArr(items ...MV) MV { return MArrOff(0, items...) }
func MArrOff(off int, items ...MV) MV {
	var ms []MV
	for i, it := range items {
		if it.K == 0 {
			continue // hole
		}
		ms = append(ms, Pair(Num(float64(i+off)), "@item", it))
	}
	return Set(ms...)
}
func MBytesOff(off int, b ...byte) MV {
	var ms []MV
	for i, x := range b {
		ms = append(ms, Pair(Num(float64(i+off)), "@byte", Num(float64(x))))
	}
	return Set(ms...)
}
func MDict(kv ...MV) MV {
	var ms []MV
	for i := 0; i+1 < len(kv); i += 2 {
		ms = append(ms, Pair(kv[i], "@value", kv[i+1]))
	}
	return Set(ms...)
}

// Denote maps a live arr.ai value to its denotation using only the exported access API
// (Number.Float64, Tuple.Enumerator, Set.Enumerator). Functions become the opaque leaf.
// It may panic if the implementation's enumerators panic; callers use SafeDenote.
func Denote(v rel.Value) MV {
	switch x := v.(type) {
	case rel.Number:
		return Num(x.Float64())
	case rel.Tuple:
		m := map[string]MV{}
		for e := x.Enumerator(); e.MoveNext(); {
			n, a := e.Current()
			m[n] = Denote(a)
		}
		return Tup(m)
	case rel.Closure, *rel.NativeFunction, rel.ExprClosure:
		return Fn()
	case rel.Set:
		var ms []MV
		for e := x.Enumerator(); e.MoveNext(); {
			ms = append(ms, Denote(e.Current()))
		}
		return Set(ms...)
	case nil:
		panic("denote: nil value")
	}
	panic(fmt.Sprintf("denote: unsupported %T", v))
}

// IsFn reports whether v is a function value (opaque to the model).
func IsFn(v rel.Value) bool {
	switch v.(type) {
	case rel.Closure, *rel.NativeFunction, rel.ExprClosure:
		return true
	}
	return false
}

// SafeDenote is Denote under recover.
func SafeDenote(v rel.Value) (m MV, perr *PanicInfo) {
	defer func() {
		if r := recover(); r != nil {
			perr = NewPanicInfo(r)
		}
	}()
	return Denote(v), nil
}

// ContainsFn reports whether an opaque function leaf occurs anywhere.
func (m MV) ContainsFn() bool {
	switch m.K {
	case 'f':
		return true
	case 't':
		for _, v := range m.T {
			if v.ContainsFn() {
				return true
			}
		}
	case 's':
		for _, v := range m.S {
			if v.ContainsFn() {
				return true
			}
		}
	}
	return false
}

// Src renders a model value as spelled-out arr.ai source (no sugar except numbers).
func Src(m MV) string {
	switch m.K {
	case 'n':
		return numSrc(m.N)
	case 't':
		if len(m.T) == 0 {
			return "()"
		}
		ks := make([]string, 0, len(m.T))
		for k := range m.T {
			ks = append(ks, k)
		}
		sort.Strings(ks)
		parts := make([]string, 0, len(ks))
		for _, k := range ks {
			parts = append(parts, AttrName(k)+": "+Src(m.T[k]))
		}
		return "(" + strings.Join(parts, ", ") + ")"
	case 's':
		parts := make([]string, 0, len(m.S))
		for _, e := range m.S {
			parts = append(parts, Src(e))
		}
		return "{" + strings.Join(parts, ", ") + "}"
	}
	return "(\\x x)"
}

func numSrc(f float64) string {
	if f == math.Trunc(f) && math.Abs(f) < 1e15 {
		s := strconv.FormatFloat(f, 'f', -1, 64)
		if f < 0 {
			return "(" + s + ")"
		}
		return s
	}
	s := strconv.FormatFloat(f, 'g', -1, 64)
	if f < 0 {
		return "(" + s + ")"
	}
	return s
}

// AttrName renders a tuple attribute name for source.
func AttrName(k string) string {
	simple := k != ""
	for i, r := range k {
		ok := r == '_' || r == '@' && i == 0 || r >= 'a' && r <= 'z' || r >= 'A' && r <= 'Z' ||
			i > 0 && r >= '0' && r <= '9'
		if !ok {
			simple = false
		}
	}
	if k == "@" {
		return "@"
	}
	if simple && !keywords[k] {
		return k
	}
	return strconv.Quote(k)
}

var keywords = map[string]bool{"true": true, "false": true, "let": true, "cond": true, "if": true,
	"else": true, "where": true, "with": true, "without": true, "count": true, "order": true,
	"orderby": true, "rank": true, "nest": true, "unnest": true, "sum": true, "max": true,
	"min": true, "mean": true, "median": true, "single": true, "import": true, "rec": true}

// ---- classification helpers (used for hazards and coverage; never by oracles as truth) ----

// SeqInfo describes a set all of whose members are (@:int, payload:x) for one payload name.
type SeqInfo struct {
	Payload string // "@char","@item","@byte","@value" or ""
	N       int
	Lo, Hi  int
	Super   bool // two payloads at one index
	Holes   bool
	NonInt  bool // some @ is not an integer number
}

// Classify returns the shape class of a model value (coverage / hazard vocabulary).
func Classify(m MV) string {
	switch m.K {
	case 'n':
		return "num"
	case 't':
		return "tuple"
	case 'f':
		return "fn"
	}
	if len(m.S) == 0 {
		return "empty"
	}
	if m.Enc == MTrue.Enc {
		return "true"
	}
	kinds := map[string]bool{}
	for _, e := range m.S {
		kinds[memberKind(e)] = true
	}
	if len(kinds) > 1 {
		return "mixed"
	}
	for k := range kinds {
		switch k {
		case "@char", "@item", "@byte":
			name := map[string]string{"@char": "str", "@item": "arr", "@byte": "bytes"}[k]
			si := SeqShape(m, k)
			f := ""
			if si.Lo != 0 {
				f += "+off"
			}
			if si.Holes {
				f += "+holes"
			}
			if si.Super {
				f += "+super"
			}
			return name + f
		case "@value":
			ks := map[string]int{}
			for _, e := range m.S {
				ks[e.T["@"].Enc]++
			}
			for _, c := range ks {
				if c > 1 {
					return "dict+multi"
				}
			}
			return "dict"
		case "rel":
			hs := map[string]bool{}
			for _, e := range m.S {
				hs[Heading(e)] = true
			}
			if len(hs) > 1 {
				return "tuples-mixed-headings"
			}
			return "rel"
		case "unit":
			return "true"
		default:
			return "plain-set"
		}
	}
	return "?"
}

func Heading(t MV) string {
	ns := make([]string, 0, len(t.T))
	for n := range t.T {
		ns = append(ns, n)
	}
	sort.Strings(ns)
	return strings.Join(ns, ",")
}

func memberKind(e MV) string {
	if e.K != 't' {
		return "other"
	}
	if len(e.T) == 0 {
		return "unit"
	}
	if len(e.T) == 2 {
		if at, ok := e.T["@"]; ok {
			for _, p := range []string{"@char", "@item", "@byte"} {
				if pv, ok := e.T[p]; ok {
					if at.K == 'n' && at.N == math.Trunc(at.N) {
						if p == "@item" || pv.K == 'n' {
							return p
						}
					}
					return "rel"
				}
			}
			if _, ok := e.T["@value"]; ok {
				return "@value"
			}
		}
	}
	return "rel"
}

// SeqShape computes index statistics for a sequence-like set with the given payload.
func SeqShape(m MV, payload string) SeqInfo {
	si := SeqInfo{Payload: payload, Lo: math.MaxInt32, Hi: math.MinInt32}
	idx := map[int]int{}
	for _, e := range m.S {
		if e.K != 't' {
			continue
		}
		at, ok := e.T["@"]
		if !ok {
			continue
		}
		if _, ok := e.T[payload]; !ok {
			continue
		}
		if at.K != 'n' || at.N != math.Trunc(at.N) {
			si.NonInt = true
			continue
		}
		i := int(at.N)
		idx[i]++
		si.N++
		if i < si.Lo {
			si.Lo = i
		}
		if i > si.Hi {
			si.Hi = i
		}
	}
	for _, c := range idx {
		if c > 1 {
			si.Super = true
		}
	}
	if len(idx) > 0 && si.Hi-si.Lo+1 != len(idx) {
		si.Holes = true
	}
	if len(idx) == 0 {
		si.Lo, si.Hi = 0, -1
	}
	return si
}

// Hazards lists the model-level hazard tags (DESIGN §5.2) present in a value, recursively.
func Hazards(m MV, into map[string]bool) {
	switch m.K {
	case 't':
		for _, v := range m.T {
			Hazards(v, into)
		}
		if at, ok := m.T["@"]; ok && len(m.T) == 2 {
			for _, p := range []string{"@char", "@item", "@byte"} {
				if pv, ok := m.T[p]; ok {
					if at.K != 'n' || at.N != math.Trunc(at.N) {
						into["non-integer-index"] = true
					} else if p != "@item" && (pv.K != 'n' || pv.N != math.Trunc(pv.N) || pv.N < 0) {
						into["bad-payload("+p[1:]+")"] = true
					} else if p == "@byte" && pv.N > 255 {
						into["bad-payload(byte)"] = true
					}
				}
			}
		}
		return
	case 's':
	default:
		return
	}
	for _, e := range m.S {
		Hazards(e, into)
	}
	if len(m.S) == 0 {
		return
	}
	kinds := map[string]int{}
	for _, e := range m.S {
		kinds[memberKind(e)]++
	}
	if len(kinds) > 1 {
		into["mixed-bucket"] = true
	}
	for _, p := range []string{"@char", "@item", "@byte"} {
		if kinds[p] == 0 {
			continue
		}
		si := SeqShape(m, p)
		short := p[1:]
		if si.Super {
			into["seq-super("+short+")"] = true
		}
		if si.Holes {
			if p == "@item" {
				into["seq-holes(item)"] = true
			} else {
				into["seq-sparse("+short+")"] = true
			}
		}
		if si.Lo != 0 {
			into["seq-offset("+short+")"] = true
		}
	}
	if kinds["@value"] > 0 {
		ks := map[string]int{}
		for _, e := range m.S {
			if memberKind(e) == "@value" {
				k := e.T["@"]
				ks[k.Enc]++
				if Classify(k) != "str" && !(k.K == 's' && len(k.S) == 0) {
					into["dict-nonstring-key"] = true
				}
			}
		}
		for _, c := range ks {
			if c > 1 {
				into["dict-multi"] = true
			}
		}
	}
	if kinds["rel"] > 0 {
		hs := map[string]bool{}
		for _, e := range m.S {
			if memberKind(e) == "rel" {
				hs[Heading(e)] = true
			}
		}
		if len(hs) > 1 {
			into["tuples-mixed-headings"] = true
		}
	}
}

// HazardList returns the sorted hazards over several values.
func HazardList(ms ...MV) []string {
	h := map[string]bool{}
	for _, m := range ms {
		Hazards(m, h)
	}
	out := make([]string, 0, len(h))
	for k := range h {
		out = append(out, k)
	}
	sort.Strings(out)
	return out
}
