package core

import (
	"bufio"
	"bytes"
	"encoding/json"
	"fmt"
	"os"
	"os/exec"
	"path/filepath"
	"regexp"
	"runtime"
	"sort"
	"strconv"
	"strings"
	"sync"
	"sync/atomic"
	"syscall"
	"time"
)

// Config is the run configuration shared by driver and workers.
type Config struct {
	ID      string
	Tier    string // quick | thorough
	Seed    uint64
	Workers int
	Root    string // /verif
	RunDir  string // /verif/run/<ID>
	Race    bool   // this binary was built with -race
}

func (c *Config) Thorough() bool { return c.Tier == "thorough" }

// Pick returns q for quick, t for thorough.
func (c *Config) Pick(q, t int) int {
	if c.Thorough() {
		return t
	}
	return q
}

// Signature identifies a violation for known-finding matching (DESIGN §5.2).
type Signature struct {
	Property string   `json:"property"`
	Clause   string   `json:"clause"`
	Entry    string   `json:"entry,omitempty"`
	Mode     string   `json:"mode,omitempty"`
	Site     string   `json:"site,omitempty"`
	Hazards  []string `json:"hazards,omitempty"`
	Delta    string   `json:"delta,omitempty"`
}

func (s Signature) String() string {
	return fmt.Sprintf("clause=%s entry=%q mode=%s site=%q hazards=%v delta=%s",
		s.Clause, s.Entry, s.Mode, s.Site, s.Hazards, s.Delta)
}

// Violation is one refuting observation.
type Violation struct {
	Sig    Signature   `json:"sig"`
	Detail string      `json:"detail"`
	Replay interface{} `json:"replay,omitempty"`
	Case   int         `json:"case"`
}

// CaseResult is what a worker reports for one case.
type CaseResult struct {
	Key          string // canonical encoding of the case; "" => not counted as distinct
	NonTrivial   bool
	Evals        int      // executions of the real code in this case (default 1)
	Cover        []string // coverage tags observed
	Sample       string
	Viols        []Violation
	Inconclusive string
	Data         interface{} // forwarded to the driver for offline oracles
	SubKeys      []string    // additional distinct non-trivial sub-cases
}

// Check is one property monitor.
type Check interface {
	ID() string
	Level() string // evidence level category
	Rule() string
	Assumptions() []string
	NumCases(cfg *Config) int
	RunCase(cfg *Config, i int) CaseResult
}

// Finisher runs driver-side (offline oracles over forwarded Data, coverage floors).
type Finisher interface {
	Finish(cfg *Config, agg *Aggregate)
}

// WorkerEnv lets a check set environment variables for its worker children.
type WorkerEnv interface {
	WorkerEnv(cfg *Config, shard int) []string
}

// HangBudget lets a check adjust the wall seconds before the hang criterion is evaluated.
type HangBudget interface {
	HangWallSeconds() int
}

// SlowBudget lets a check that runs external processes raise the wall seconds after which a case
// that meets no logical hang criterion is given up as "slow" (inconclusive). Default 150.
type SlowBudget interface {
	SlowWallSeconds() int
}

// WorkerBudget lets a check raise the driver's per-worker wall-clock watchdog (default 40 minutes).
// Like SlowBudget it only turns a wall-clock give-up into "inconclusive", never into a verdict.
type WorkerBudget interface {
	WorkerWallMinutes() int
}

// Sharder lets a check choose the number of worker processes.
type Sharder interface {
	Shards(cfg *Config) int
}

// Aggregate is the driver's merged view of all worker output.
type Aggregate struct {
	Evals        int
	Cases        int
	Distinct     map[uint64]struct{}
	Cover        map[string]int
	Samples      []string
	Viols        []Violation
	Inconclusive []string
	Data         []DataRec
	Crashes      int
	Broken       []string
	Extra        map[string]interface{}
}

type DataRec struct {
	Case  int             `json:"case"`
	Shard int             `json:"shard"`
	Data  json.RawMessage `json:"data"`
}

func (a *Aggregate) Fail(format string, args ...interface{}) {
	a.Broken = append(a.Broken, fmt.Sprintf(format, args...))
}

var registry = map[string]Check{}

func Register(c Check) { registry[c.ID()] = c }

func Lookup(id string) Check { return registry[id] }

func IDs() []string {
	var ids []string
	for k := range registry {
		ids = append(ids, k)
	}
	sort.Strings(ids)
	return ids
}

// ---------------------------------------------------------------------------------------------
// worker side

type wline struct {
	T     string          `json:"t"` // v | d | sum | hang | inc
	Case  int             `json:"case"`
	Viol  *Violation      `json:"viol,omitempty"`
	Data  json.RawMessage `json:"data,omitempty"`
	Sum   *wsum           `json:"sum,omitempty"`
	Hang  *HangInfo       `json:"hang,omitempty"`
	Note  string          `json:"note,omitempty"`
	Shard int             `json:"shard"`
}

type wsum struct {
	Evals    int            `json:"evals"`
	Cases    int            `json:"cases"`
	Distinct []uint64       `json:"distinct"`
	Cover    map[string]int `json:"cover"`
	Samples  []string       `json:"samples"`
	Done     bool           `json:"done"`
}

// HangInfo is produced by the logical hang criterion.
type HangInfo struct {
	Kind  string `json:"kind"` // blocked | spin | slow
	Site  string `json:"site"`
	State string `json:"state"`
	Stack string `json:"stack"`
	CPUms int64  `json:"cpu_ms"`
}

var curCase atomic.Int64
var caseStart atomic.Int64 // unix nano
var caseCPU atomic.Int64   // process cpu ns at case start

func procCPU() int64 {
	var ru syscall.Rusage
	_ = syscall.Getrusage(syscall.RUSAGE_SELF, &ru)
	return ru.Utime.Nano() + ru.Stime.Nano()
}

// RunWorker executes cases start, start+stride, ... < n and writes JSONL to out.
func RunWorker(cfg *Config, chk Check, shard, stride, start int, out string) int {
	f, err := os.OpenFile(out, os.O_CREATE|os.O_WRONLY|os.O_APPEND, 0o644)
	if err != nil {
		fmt.Fprintln(os.Stderr, "worker:", err)
		return 2
	}
	defer f.Close()
	var wmu sync.Mutex
	emit := func(l wline) {
		l.Shard = shard
		b, err := json.Marshal(l)
		if err != nil {
			b, _ = json.Marshal(wline{T: "inc", Case: l.Case, Note: "marshal: " + err.Error(), Shard: shard})
		}
		wmu.Lock()
		f.Write(append(b, '\n'))
		wmu.Unlock()
	}
	prog, _ := os.OpenFile(out+".progress", os.O_CREATE|os.O_WRONLY, 0o644)
	defer prog.Close()
	n := chk.NumCases(cfg)
	sum := &wsum{Cover: map[string]int{}}
	distinct := map[uint64]struct{}{}
	hangWall := 20
	if hb, ok := chk.(HangBudget); ok {
		hangWall = hb.HangWallSeconds()
	}
	curCase.Store(-1)
	// Partial sums: a worker that dies (crash, hang verdict) must not take the counts of the
	// cases it completed with it. Deltas are flushed every 64 cases, by the hang monitor before
	// it exits the process, and at the end (Done=true); the driver adds sums up.
	var sumMu sync.Mutex
	flush := func(done bool) {
		sumMu.Lock()
		defer sumMu.Unlock()
		for h := range distinct {
			sum.Distinct = append(sum.Distinct, h)
		}
		sum.Done = done
		emit(wline{T: "sum", Sum: sum})
		sum = &wsum{Cover: map[string]int{}}
		distinct = map[uint64]struct{}{}
	}
	flushPartial = func() { flush(false) }
	slowWall := 150
	if sb, ok := chk.(SlowBudget); ok {
		slowWall = sb.SlowWallSeconds()
	}
	go hangMonitor(hangWall, slowWall, emit)
	sinceFlush := 0
	for i := start; i < n; i += stride {
		if sinceFlush >= 64 {
			flush(false)
			sinceFlush = 0
		}
		sinceFlush++
		prog.WriteAt([]byte(fmt.Sprintf("%-12d", i)), 0)
		caseCPU.Store(procCPU())
		caseStart.Store(time.Now().UnixNano())
		curCase.Store(int64(i))
		res := func() (res CaseResult) {
			defer func() {
				if r := recover(); r != nil {
					pi := NewPanicInfo(r)
					res.Inconclusive = "HARNESS-PANIC " + pi.Msg + "\n" + pi.Stack
				}
			}()
			return chk.RunCase(cfg, i)
		}()
		curCase.Store(-1)
		if res.Evals == 0 {
			res.Evals = 1
		}
		sumMu.Lock()
		sum.Evals += res.Evals
		sum.Cases++
		if res.Key != "" && res.NonTrivial {
			distinct[Hash64(res.Key)] = struct{}{}
		}
		for _, k := range res.SubKeys {
			distinct[Hash64(k)] = struct{}{}
		}
		for _, c := range res.Cover {
			sum.Cover[c]++
		}
		if res.Sample != "" && len(sum.Samples) < 4 {
			sum.Samples = append(sum.Samples, res.Sample)
		}
		sumMu.Unlock()
		for k := range res.Viols {
			v := res.Viols[k]
			v.Case = i
			v.Sig.Property = cfg.ID
			emit(wline{T: "v", Case: i, Viol: &v})
		}
		if res.Inconclusive != "" {
			emit(wline{T: "inc", Case: i, Note: res.Inconclusive})
		}
		if res.Data != nil {
			b, err := json.Marshal(res.Data)
			if err == nil {
				emit(wline{T: "d", Case: i, Data: b})
			}
		}
	}
	flush(true)
	return 0
}

// flushPartial is set by RunWorker; the hang monitor calls it before it exits the process.
var flushPartial = func() {}

var reGoroutine = regexp.MustCompile(`(?m)^goroutine (\d+) \[([^\]]*)\]:`)
var reAddr = regexp.MustCompile(`\(0x[0-9a-f, x.]*\)|\+0x[0-9a-f]+|0x[0-9a-f]+`)

type gsample struct {
	id, state, frames, site string
}

// arraiGoroutines parses a full goroutine dump and returns those with an arrai frame.
func arraiGoroutines(dump string) []gsample {
	var out []gsample
	for _, blk := range strings.Split(dump, "\n\n") {
		m := reGoroutine.FindStringSubmatch(blk)
		if m == nil || !strings.Contains(blk, arraiPkg) {
			continue
		}
		if strings.Contains(blk, "core.hangMonitor") {
			continue
		}
		var fr []string
		site := ""
		for _, ln := range strings.Split(blk, "\n")[1:] {
			if strings.HasPrefix(ln, "\t") || strings.HasPrefix(ln, "created by") {
				continue
			}
			fn := reAddr.ReplaceAllString(ln, "")
			fn = strings.TrimSuffix(fn, "(...)")
			fr = append(fr, fn)
			if site == "" && strings.HasPrefix(fn, arraiPkg) {
				site = NormFrame(fn)
			}
		}
		st := m[2]
		if i := strings.IndexByte(st, ','); i >= 0 {
			st = st[:i]
		}
		out = append(out, gsample{id: m[1], state: st, frames: strings.Join(fr, "\n"), site: site})
	}
	sort.Slice(out, func(i, j int) bool { return out[i].id < out[j].id })
	return out
}

var blockedStates = map[string]bool{"sync.Cond.Wait": true, "chan send": true, "chan receive": true,
	"select": true, "semacquire": true, "sync.Mutex.Lock": true, "sync.WaitGroup.Wait": true,
	"sync.RWMutex.Lock": true, "sync.RWMutex.RLock": true, "chan send (nil chan)": true,
	"chan receive (nil chan)": true, "select (no cases)": true}

func dumpAll() string {
	buf := make([]byte, 8<<20)
	n := runtime.Stack(buf, true)
	return string(buf[:n])
}

// hangMonitor applies the logical hang criterion of DESIGN §1 to the current case.
func hangMonitor(hangWall, slowWall int, emit func(wline)) {
	for {
		time.Sleep(500 * time.Millisecond)
		c := curCase.Load()
		if c < 0 {
			continue
		}
		start := caseStart.Load()
		if time.Since(time.Unix(0, start)) < time.Duration(hangWall)*time.Second {
			continue
		}
		// candidate: sample twice, >=1 s apart
		cpu0 := procCPU()
		s0 := arraiGoroutines(dumpAll())
		time.Sleep(1500 * time.Millisecond)
		if curCase.Load() != c || caseStart.Load() != start {
			continue
		}
		cpu1 := procCPU()
		s1 := arraiGoroutines(dumpAll())
		same := len(s0) == len(s1) && len(s0) > 0
		allBlocked := same
		if same {
			for i := range s0 {
				if s0[i].id != s1[i].id || s0[i].frames != s1[i].frames {
					same = false
				}
				if !blockedStates[s1[i].state] || !blockedStates[s0[i].state] {
					allBlocked = false
				}
			}
		}
		cpuDelta := cpu1 - cpu0
		if same && allBlocked && cpuDelta < int64(75*time.Millisecond) {
			g := s1[0]
			emit(wline{T: "hang", Case: int(c), Hang: &HangInfo{Kind: "blocked", Site: g.site, State: g.state,
				Stack: clip(g.frames, 2000), CPUms: cpuDelta / 1e6}})
			flushPartial()
			os.Exit(3)
		}
		// spinning arm: >=30 s CPU in this case and three identical full stacks 10 CPU-seconds apart
		caseCPUUsed := procCPU() - caseCPU.Load()
		if caseCPUUsed >= int64(30*time.Second) {
			ident := true
			var ref []gsample
			for k := 0; k < 3 && ident; k++ {
				if k > 0 {
					t0 := procCPU()
					dl := time.Now().Add(60 * time.Second)
					for procCPU()-t0 < int64(10*time.Second) && time.Now().Before(dl) {
						time.Sleep(200 * time.Millisecond)
					}
				}
				if curCase.Load() != c || caseStart.Load() != start {
					ident = false
					break
				}
				s := arraiGoroutines(dumpAll())
				if k == 0 {
					ref = s
					continue
				}
				if len(s) != len(ref) || len(s) == 0 {
					ident = false
					break
				}
				for i := range s {
					if s[i].frames != ref[i].frames {
						ident = false
					}
				}
			}
			if curCase.Load() != c || caseStart.Load() != start {
				continue
			}
			if ident && len(ref) > 0 {
				emit(wline{T: "hang", Case: int(c), Hang: &HangInfo{Kind: "spin", Site: ref[0].site, State: ref[0].state,
					Stack: clip(ref[0].frames, 2000), CPUms: (procCPU() - caseCPU.Load()) / 1e6}})
				flushPartial()
				os.Exit(3)
			}
		}
		if time.Since(time.Unix(0, start)) > time.Duration(slowWall)*time.Second {
			site := ""
			if len(s1) > 0 {
				site = s1[0].site
			}
			emit(wline{T: "hang", Case: int(c), Hang: &HangInfo{Kind: "slow", Site: site, CPUms: (procCPU() - caseCPU.Load()) / 1e6}})
			flushPartial()
			os.Exit(4)
		}
	}
}

// HangProbe applies the "blocked" arm of the logical hang criterion once, on demand, to the
// calling process: two goroutine-dump samples gap apart must show the same arrai goroutines in
// the same blocked frames, and the process must have used next to no CPU in between. It
// returns nil when the criterion is not met (work is still going on => not a hang). A check
// that can tell by itself that a case is not making progress calls this instead of waiting
// for the process-level monitor (which kills the worker). prefer, if non-empty, selects the
// goroutine whose stack contains it as the reported site.
func HangProbe(gap time.Duration, prefer string) *HangInfo {
	hi, why := hangProbe(gap, prefer)
	if hi == nil && os.Getenv("VERIF_HANGPROBE_DEBUG") != "" {
		fmt.Fprintln(os.Stderr, "HangProbe: criterion not met:", why)
	}
	return hi
}

func hangProbe(gap time.Duration, prefer string) (*HangInfo, string) {
	if gap < time.Second {
		gap = time.Second
	}
	s0 := arraiGoroutines(dumpAll())
	cpu0 := procCPU() // after the first dump: taking a dump is itself CPU work
	time.Sleep(gap)
	cpu1 := procCPU()
	s1 := arraiGoroutines(dumpAll())
	if len(s0) != len(s1) || len(s0) == 0 {
		return nil, fmt.Sprintf("goroutine sets differ (%d vs %d arrai goroutines)", len(s0), len(s1))
	}
	for i := range s0 {
		if s0[i].id != s1[i].id || s0[i].frames != s1[i].frames {
			return nil, "goroutine " + s1[i].id + " moved: " + clip(s0[i].frames, 300) + " => " + clip(s1[i].frames, 300)
		}
		if !blockedStates[s1[i].state] || !blockedStates[s0[i].state] {
			return nil, "goroutine " + s1[i].id + " is not blocked: [" + s0[i].state + "]/[" + s1[i].state + "] " + clip(s1[i].frames, 300)
		}
	}
	cpuDelta := cpu1 - cpu0
	if lim := int64(75*time.Millisecond) * int64(gap) / int64(1500*time.Millisecond); cpuDelta >= lim {
		return nil, fmt.Sprintf("process used %d ms CPU in %v (limit %d ms)", cpuDelta/1e6, gap, lim/1e6)
	}
	g := s1[0]
	if prefer != "" {
		for _, c := range s1 {
			if strings.Contains(c.frames, prefer) {
				g = c
				break
			}
		}
	}
	return &HangInfo{Kind: "blocked", Site: g.site, State: g.state, Stack: clip(g.frames, 2000), CPUms: cpuDelta / 1e6}, ""
}

func clip(s string, n int) string {
	if len(s) > n {
		return s[:n]
	}
	return s
}

// ---------------------------------------------------------------------------------------------
// driver side

// Drive plans shards, spawns workers (this same executable), merges output.
func Drive(cfg *Config, chk Check) *Aggregate {
	agg := &Aggregate{Distinct: map[uint64]struct{}{}, Cover: map[string]int{}, Extra: map[string]interface{}{}}
	os.RemoveAll(cfg.RunDir)
	os.MkdirAll(cfg.RunDir, 0o755)
	n := chk.NumCases(cfg)
	shards := cfg.Workers
	if s, ok := chk.(Sharder); ok {
		shards = s.Shards(cfg)
	}
	if shards > n {
		shards = n
	}
	if shards < 1 {
		shards = 1
	}
	exe, _ := os.Executable()
	var mu sync.Mutex
	var wg sync.WaitGroup
	sem := make(chan struct{}, cfg.Workers)
	workerWall := 40 * time.Minute
	if wb, ok := chk.(WorkerBudget); ok {
		workerWall = time.Duration(wb.WorkerWallMinutes()) * time.Minute
	}
	for s := 0; s < shards; s++ {
		wg.Add(1)
		sem <- struct{}{} // acquired here, not in the goroutine: shards start in index order (long shards can be put first)
		go func(shard int) {
			defer wg.Done()
			defer func() { <-sem }()
			start := shard
			restarts := 0
			for start < n {
				out := filepath.Join(cfg.RunDir, fmt.Sprintf("w%02d.%d.jsonl", shard, restarts))
				errf := out + ".stderr"
				os.Remove(out + ".progress")
				cmd := exec.Command(exe, "worker", cfg.ID, "--tier", cfg.Tier, "--seed", strconv.FormatUint(cfg.Seed, 10),
					"--shard", strconv.Itoa(shard), "--stride", strconv.Itoa(shards), "--start", strconv.Itoa(start), "--out", out)
				ef, _ := os.Create(errf)
				cmd.Stdout = ef
				cmd.Stderr = ef
				cmd.Env = append(os.Environ(), "GOMEMLIMIT=3GiB", "GOTRACEBACK=all")
				if we, ok := chk.(WorkerEnv); ok {
					cmd.Env = append(cmd.Env, we.WorkerEnv(cfg, shard)...)
				}
				done := make(chan error, 1)
				if err := cmd.Start(); err != nil {
					mu.Lock()
					agg.Fail("cannot start worker: %v", err)
					mu.Unlock()
					ef.Close()
					return
				}
				go func() { done <- cmd.Wait() }()
				var werr error
				select {
				case werr = <-done:
				case <-time.After(workerWall):
					cmd.Process.Signal(syscall.SIGQUIT)
					select {
					case werr = <-done:
					case <-time.After(10 * time.Second):
						cmd.Process.Kill()
						werr = <-done
					}
					werr = fmt.Errorf("worker watchdog (%v) fired: %v", workerWall, werr)
				}
				ef.Close()
				complete, lastHang := mergeWorkerFile(out, agg, &mu)
				if complete {
					return
				}
				// the child died: attribute to the case in the progress file
				pb, _ := os.ReadFile(out + ".progress")
				k, perr := strconv.Atoi(strings.TrimSpace(string(pb)))
				if perr != nil {
					mu.Lock()
					agg.Fail("worker shard %d died before its first case: %v; stderr: %s", shard, werr, tail(errf, 600))
					mu.Unlock()
					return
				}
				mu.Lock()
				agg.Crashes++
				if lastHang == nil {
					st := tail(errf, 6000)
					site, class := fatalSite(st)
					if strings.Contains(fmt.Sprint(werr), "watchdog") {
						agg.Inconclusive = append(agg.Inconclusive, fmt.Sprintf("case %d: %v", k, werr))
					} else {
						agg.Viols = append(agg.Viols, Violation{Case: k, Sig: Signature{Property: cfg.ID, Clause: "no-crash",
							Mode: "fatal", Site: class + " @ " + site}, Detail: fmt.Sprintf("worker process died in case %d (%v): %s", k, werr, clip(st, 1500)),
							Replay: map[string]interface{}{"case": k}})
					}
				}
				mu.Unlock()
				restarts++
				start = k + shards
				if restarts > 200 {
					mu.Lock()
					agg.Fail("shard %d: more than 200 worker restarts", shard)
					mu.Unlock()
					return
				}
			}
		}(s)
	}
	wg.Wait()
	if f, ok := chk.(Finisher); ok {
		f.Finish(cfg, agg)
	}
	return agg
}

func tail(path string, n int) string {
	b, _ := os.ReadFile(path)
	if len(b) > n {
		b = b[len(b)-n:]
	}
	return string(b)
}

var reFatal = regexp.MustCompile(`(?m)^(fatal error: .*|panic: .*|SIGSEGV.*|signal: killed)$`)

func fatalSite(stderr string) (site, class string) {
	b, _ := os.ReadFile("/dev/null")
	_ = b
	class = "process-death"
	if m := reFatal.FindString(stderr); m != "" {
		class = MsgClass(m)
		if strings.HasPrefix(m, "fatal error: ") {
			class = strings.TrimPrefix(m, "fatal error: ")
		}
	}
	for _, ln := range strings.Split(stderr, "\n") {
		if strings.HasPrefix(ln, arraiPkg) {
			return NormFrame(reAddr.ReplaceAllString(ln, "")), class
		}
	}
	return "(no arrai frame)", class
}

func mergeWorkerFile(path string, agg *Aggregate, mu *sync.Mutex) (complete bool, hang *HangInfo) {
	f, err := os.Open(path)
	if err != nil {
		return false, nil
	}
	defer f.Close()
	sc := bufio.NewScanner(f)
	sc.Buffer(make([]byte, 1<<20), 64<<20)
	mu.Lock()
	defer mu.Unlock()
	for sc.Scan() {
		var l wline
		if err := json.Unmarshal(sc.Bytes(), &l); err != nil {
			continue
		}
		switch l.T {
		case "v":
			agg.Viols = append(agg.Viols, *l.Viol)
		case "d":
			agg.Data = append(agg.Data, DataRec{Case: l.Case, Shard: l.Shard, Data: l.Data})
		case "inc":
			if strings.HasPrefix(l.Note, "HARNESS-PANIC") {
				agg.Fail("harness panic in case %d: %s", l.Case, clip(l.Note, 1200))
			} else {
				agg.Inconclusive = append(agg.Inconclusive, fmt.Sprintf("case %d: %s", l.Case, l.Note))
			}
		case "hang":
			hang = l.Hang
			if l.Hang.Kind == "slow" {
				agg.Inconclusive = append(agg.Inconclusive, fmt.Sprintf("case %d: slow (no logical hang criterion met) at %s", l.Case, l.Hang.Site))
			} else {
				agg.Viols = append(agg.Viols, Violation{Case: l.Case, Sig: Signature{Clause: "no-hang", Mode: "hang-" + l.Hang.Kind,
					Site: l.Hang.State + " @ " + l.Hang.Site}, Detail: "logical hang criterion met: " + l.Hang.Stack,
					Replay: map[string]interface{}{"case": l.Case}})
			}
		case "sum":
			s := l.Sum
			agg.Evals += s.Evals
			agg.Cases += s.Cases
			for _, h := range s.Distinct {
				agg.Distinct[h] = struct{}{}
			}
			for k, v := range s.Cover {
				agg.Cover[k] += v
			}
			if len(agg.Samples) < 10 {
				agg.Samples = append(agg.Samples, s.Samples...)
			}
			complete = s.Done
		}
	}
	return complete, hang
}

// ---------------------------------------------------------------------------------------------
// known findings

type Finding struct {
	ID          string   `json:"id"`
	Property    string   `json:"property"`
	Clause      string   `json:"clause,omitempty"`
	Entry       []string `json:"entry,omitempty"`
	Mode        string   `json:"mode,omitempty"`
	Modes       []string `json:"modes,omitempty"` // any of (alternative to mode)
	Site        string   `json:"site,omitempty"`
	Hazards     []string `json:"hazards,omitempty"`     // must all be present
	NotHazards  []string `json:"not_hazards,omitempty"` // must all be absent
	Delta       string   `json:"delta,omitempty"`
	Exemplar    string   `json:"exemplar"`
	Explanation string   `json:"explanation"`
}

type FindingsFile struct {
	Note     string    `json:"note"`
	Findings []Finding `json:"findings"`
	Fixed    []string  `json:"fixed"`
}

func LoadFindings(root string) (*FindingsFile, error) {
	b, err := os.ReadFile(filepath.Join(root, "known-findings.json"))
	if err != nil {
		return nil, err
	}
	var ff FindingsFile
	dec := json.NewDecoder(bytes.NewReader(b))
	dec.DisallowUnknownFields()
	if err := dec.Decode(&ff); err != nil {
		return nil, err
	}
	return &ff, nil
}

func matchGlob(pat, s string) bool {
	if strings.HasSuffix(pat, "*") {
		return strings.HasPrefix(s, strings.TrimSuffix(pat, "*"))
	}
	return pat == s
}

// Match returns the first finding that matches sig on every key the finding gives.
func (ff *FindingsFile) Match(sig Signature) *Finding {
	for i := range ff.Findings {
		f := &ff.Findings[i]
		if f.Property != sig.Property {
			continue
		}
		if f.Clause != "" && !matchGlob(f.Clause, sig.Clause) {
			continue
		}
		if f.Mode != "" && !matchGlob(f.Mode, sig.Mode) {
			continue
		}
		if len(f.Modes) > 0 {
			ok := false
			for _, m := range f.Modes {
				if matchGlob(m, sig.Mode) {
					ok = true
				}
			}
			if !ok {
				continue
			}
		}
		if f.Site != "" && !matchGlob(f.Site, sig.Site) {
			continue
		}
		if f.Delta != "" && !matchGlob(f.Delta, sig.Delta) {
			continue
		}
		if len(f.Entry) > 0 {
			ok := false
			for _, e := range f.Entry {
				if matchGlob(e, sig.Entry) {
					ok = true
				}
			}
			if !ok {
				continue
			}
		}
		hz := map[string]bool{}
		for _, h := range sig.Hazards {
			hz[h] = true
		}
		ok := true
		for _, h := range f.Hazards {
			if !hz[h] {
				ok = false
			}
		}
		for _, h := range f.NotHazards {
			if hz[h] {
				ok = false
			}
		}
		if ok {
			return f
		}
	}
	return nil
}

// ---------------------------------------------------------------------------------------------
// evidence + verdict

type Evidence struct {
	PropertyID  string                 `json:"property_id"`
	Tier        string                 `json:"tier"`
	Seed        int64                  `json:"seed"`
	Level       string                 `json:"level"`
	Coverage    map[string]interface{} `json:"coverage"`
	Assumptions []string               `json:"assumptions"`
	WallS       float64                `json:"wall_s"`
	Violations  int                    `json:"violations"`
}

// Conclude matches violations to known findings, writes evidence and replays, prints
// KNOWN-FINDING / VIOLATION lines and returns the process exit code.
func Conclude(cfg *Config, chk Check, agg *Aggregate, t0 time.Time) int {
	ff, err := LoadFindings(cfg.Root)
	if err != nil {
		fmt.Println("BROKEN: cannot load known-findings.json:", err)
		return 2
	}
	sort.SliceStable(agg.Viols, func(i, j int) bool { return agg.Viols[i].Case < agg.Viols[j].Case })
	known := map[string]int{}
	knownFirst := map[string]Violation{}
	var unlisted []Violation
	unlistedSigs := map[string]int{}
	for _, v := range agg.Viols {
		v.Sig.Property = cfg.ID
		if f := ff.Match(v.Sig); f != nil {
			if known[f.ID] == 0 {
				knownFirst[f.ID] = v
			}
			known[f.ID]++
			continue
		}
		k := v.Sig.String()
		if unlistedSigs[k] == 0 {
			unlisted = append(unlisted, v)
		}
		unlistedSigs[k]++
	}
	repDir := filepath.Join(cfg.Root, "replays", cfg.ID)
	os.RemoveAll(repDir)
	var kf []string
	for id := range known {
		kf = append(kf, id)
	}
	sort.Strings(kf)
	knownOut := []map[string]interface{}{}
	for _, id := range kf {
		var f *Finding
		for i := range ff.Findings {
			if ff.Findings[i].ID == id {
				f = &ff.Findings[i]
			}
		}
		fmt.Printf("KNOWN-FINDING: property=%s %s: %s (e.g. %s) [%d occurrences this run]\n", cfg.ID, id,
			oneLine(f.Explanation), oneLine(f.Exemplar), known[id])
		knownOut = append(knownOut, map[string]interface{}{"id": id, "occurrences": known[id],
			"first_sig": knownFirst[id].Sig.String(), "first_detail": clip(knownFirst[id].Detail, 300)})
	}
	exit := 0
	if len(unlisted) > 0 {
		os.MkdirAll(repDir, 0o755)
		exit = 1
		for i, v := range unlisted {
			if i >= maxPrint() {
				fmt.Printf("… %d further distinct unlisted signatures suppressed\n", len(unlisted)-i)
				break
			}
			p := filepath.Join(repDir, fmt.Sprintf("v%03d.json", i))
			b, _ := json.MarshalIndent(map[string]interface{}{"property": cfg.ID, "tier": cfg.Tier, "seed": cfg.Seed,
				"case": v.Case, "sig": v.Sig, "detail": v.Detail, "replay": v.Replay,
				"occurrences": unlistedSigs[v.Sig.String()]}, "", " ")
			os.WriteFile(p, b, 0o644)
			fmt.Printf("VIOLATION property=%s replay=%s\n", cfg.ID, p)
			fmt.Printf("  %s\n  %s\n", v.Sig.String(), clip(oneLine(v.Detail), 400))
		}
	}
	nInc := len(agg.Inconclusive)
	if agg.Cases > 0 && nInc*50 > agg.Cases && nInc > 3 {
		agg.Fail("%d of %d cases inconclusive (>2%%)", nInc, agg.Cases)
	}
	distinct := len(agg.Distinct)
	if distinct < 2 && len(agg.Broken) == 0 {
		agg.Fail("observed fewer than 2 distinct non-trivial cases")
	}
	cover := map[string]interface{}{
		"evaluations":          agg.Evals,
		"distinct_nontrivial":  distinct,
		"rule":                 chk.Rule(),
		"samples":              sampleList(agg.Samples),
		"cases":                agg.Cases,
		"tags":                 agg.Cover,
		"inconclusive":         nInc,
		"inconclusive_samples": firstN(agg.Inconclusive, 5),
		"worker_crashes":       agg.Crashes,
		"known_findings_fired": knownOut,
		"unlisted_signatures":  len(unlisted),
		"broken":               agg.Broken,
		"workers":              cfg.Workers,
		"race_build":           cfg.Race,
	}
	for k, v := range agg.Extra {
		cover[k] = v
	}
	ev := Evidence{PropertyID: cfg.ID, Tier: cfg.Tier, Seed: int64(cfg.Seed), Level: chk.Level(), Coverage: cover,
		Assumptions: chk.Assumptions(), WallS: time.Since(t0).Seconds(), Violations: len(unlisted)}
	if len(agg.Broken) > 0 && exit == 0 {
		exit = 2
	}
	if exit != 2 || distinct >= 2 {
		b, _ := json.MarshalIndent(ev, "", " ")
		os.MkdirAll(filepath.Join(cfg.Root, "evidence"), 0o755)
		os.WriteFile(filepath.Join(cfg.Root, "evidence", cfg.ID+".json"), b, 0o644)
	}
	for _, b := range agg.Broken {
		fmt.Println("BROKEN:", b)
	}
	verdict := map[int]string{0: "held-on-observed", 1: "violated", 2: "broken"}[exit]
	fmt.Printf("%s tier=%s seed=%d: %s — cases=%d evaluations=%d distinct_nontrivial=%d known=%d unlisted=%d inconclusive=%d crashes=%d wall=%.1fs\n",
		cfg.ID, cfg.Tier, cfg.Seed, verdict, agg.Cases, agg.Evals, distinct, len(kf), len(unlisted), nInc, agg.Crashes, time.Since(t0).Seconds())
	return exit
}

func maxPrint() int {
	if n, err := strconv.Atoi(os.Getenv("VERIF_MAXPRINT")); err == nil && n > 0 {
		return n
	}
	return 25
}

func oneLine(s string) string { return strings.Join(strings.Fields(s), " ") }

func firstN(xs []string, n int) []string {
	if len(xs) > n {
		return xs[:n]
	}
	if xs == nil {
		return []string{}
	}
	return xs
}

func sampleList(xs []string) []interface{} {
	out := []interface{}{}
	for i, s := range xs {
		if i >= 8 {
			break
		}
		out = append(out, clip(s, 600))
	}
	if len(out) == 0 {
		out = append(out, "(no sample recorded)")
	}
	return out
}
