package core

import (
	"context"
	"errors"
	"fmt"
	"regexp"
	"runtime"
	"strings"
	"sync"

	"github.com/arr-ai/arrai/pkg/arraictx"
	"github.com/arr-ai/arrai/pkg/fu"
	"github.com/arr-ai/arrai/pkg/importcache"
	"github.com/arr-ai/arrai/rel"
	"github.com/arr-ai/arrai/syntax"
	"github.com/arr-ai/wbnf/parser"
)

// PanicInfo is what the crash monitor records for a recovered panic.
type PanicInfo struct {
	Msg   string `json:"msg"`
	Class string `json:"class"` // normalised message class
	Site  string `json:"site"`  // innermost arrai frame, closure suffix + line stripped
	Stack string `json:"stack,omitempty"`
}

func (p *PanicInfo) Sig() string { return p.Class + " @ " + p.Site }

var (
	reNum      = regexp.MustCompile(`-?[0-9]+(\.[0-9]+)?`)
	reClosure  = regexp.MustCompile(`(\.func[0-9]+|\.[0-9]+)+$`)
	reTypeName = regexp.MustCompile(`\*?[a-z]+\.[A-Za-z_]+`)
)

const arraiPkg = "github.com/arr-ai/arrai/"

// NewPanicInfo captures the panic value and the innermost frame inside arrai from the
// current goroutine's stack (must be called from the deferred function that recovered).
func NewPanicInfo(r interface{}) *PanicInfo {
	var msg string
	if err, ok := r.(error); ok {
		msg = ErrText(err) // never call Error() on a parser.ParseError (see ErrText)
	} else {
		msg = fmt.Sprintf("%v", r)
	}
	if len(msg) > 300 {
		msg = msg[:300]
	}
	pcs := make([]uintptr, 128)
	n := runtime.Callers(2, pcs)
	frames := runtime.CallersFrames(pcs[:n])
	site := ""
	var sb strings.Builder
	afterPanic := false
	for {
		f, more := frames.Next()
		if f.Function == "runtime.gopanic" || strings.HasPrefix(f.Function, "runtime.panic") ||
			f.Function == "runtime.goPanicIndex" || f.Function == "runtime.sigpanic" {
			afterPanic = true
		} else if afterPanic {
			if sb.Len() < 1500 {
				fmt.Fprintf(&sb, "%s:%d\n", f.Function, f.Line)
			}
			if site == "" && strings.HasPrefix(f.Function, arraiPkg) {
				site = NormFrame(f.Function)
			}
		}
		if !more {
			break
		}
	}
	if site == "" {
		site = "(no arrai frame)"
	}
	return &PanicInfo{Msg: msg, Class: MsgClass(msg), Site: site, Stack: sb.String()}
}

// NormFrame strips the module prefix and closure suffixes from a function name.
func NormFrame(fn string) string {
	fn = strings.TrimPrefix(fn, arraiPkg)
	fn = reClosure.ReplaceAllString(fn, "")
	fn = strings.ReplaceAll(fn, "[...]", "")
	return fn
}

// MsgClass maps a panic message to a coarse, refactor-stable class.
func MsgClass(msg string) string {
	switch {
	case strings.Contains(msg, "interface conversion"):
		return "interface conversion"
	case strings.Contains(msg, "nil pointer dereference") || strings.Contains(msg, "invalid memory address"):
		return "nil dereference"
	case strings.Contains(msg, "index out of range"):
		return "index out of range"
	case strings.Contains(msg, "slice bounds out of range"):
		return "slice bounds out of range"
	case strings.Contains(msg, "makeslice") || strings.Contains(msg, "out of memory"):
		return "makeslice"
	case strings.Contains(msg, "divide by zero"):
		return "divide by zero"
	}
	m := reNum.ReplaceAllString(msg, "N")
	m = reTypeName.ReplaceAllString(m, "T")
	if i := strings.IndexByte(m, '\n'); i >= 0 {
		m = m[:i]
	}
	if len(m) > 40 {
		m = m[:40]
	}
	return m
}

// ---- evaluation context ----

var (
	baseCtxOnce sync.Once
	baseCtx     context.Context
)

// Ctx returns a run context (OS filesystem) with a fresh import cache.
func Ctx() context.Context {
	baseCtxOnce.Do(func() { baseCtx = arraictx.InitRunCtx(context.Background()) })
	return importcache.WithNewImportCache(baseCtx)
}

// Outcome of one guarded evaluation.
type Outcome struct {
	Val   rel.Value
	Err   error
	Panic *PanicInfo
}

func (o Outcome) OK() bool { return o.Err == nil && o.Panic == nil && o.Val != nil }

// Mode classifies the outcome: "value", "error", "panic".
func (o Outcome) Mode() string {
	switch {
	case o.Panic != nil:
		return "panic"
	case o.Err != nil:
		return "error"
	}
	return "value"
}

// ErrText renders an error cheaply. parser.ParseError.Error() can take 30 s of CPU
// (wbnf error-tree printer), so it is never called; see DESIGN §1.
func ErrText(err error) string {
	if err == nil {
		return ""
	}
	// a ParseError may be wrapped (ContextErr, localImportError, %w): walk the chain
	for e, depth := err, 0; e != nil && depth < 20; e, depth = errors.Unwrap(e), depth+1 {
		switch e.(type) {
		case parser.ParseError, *parser.ParseError:
			return "parser.ParseError"
		}
		if s := fmt.Sprintf("%T", e); strings.Contains(s, "ParseError") {
			return s
		}
		if c, ok := e.(interface{ Cause() error }); ok && errors.Unwrap(e) == nil {
			if inner := c.Cause(); inner != nil && inner != e {
				if t := fmt.Sprintf("%T", inner); strings.Contains(t, "ParseError") {
					return t
				}
			}
		}
	}
	msg := func() (m string) {
		defer func() {
			if r := recover(); r != nil {
				m = fmt.Sprintf("<Error() panicked: %v>", r)
			}
		}()
		return err.Error()
	}()
	if len(msg) > 240 {
		msg = msg[:240] + "…"
	}
	return msg
}

// Guard runs f under recover.
func Guard(f func() (rel.Value, error)) (o Outcome) {
	defer func() {
		if r := recover(); r != nil {
			o = Outcome{Panic: NewPanicInfo(r)}
		}
	}()
	v, err := f()
	if err == nil && v == nil {
		return Outcome{Err: fmt.Errorf("verif: nil value with nil error")}
	}
	return Outcome{Val: v, Err: err}
}

// Eval compiles and evaluates source with the given scope.
func Eval(ctx context.Context, src string, scope rel.Scope) Outcome {
	return Guard(func() (rel.Value, error) { return syntax.EvalWithScope(ctx, "", src, scope) })
}

// EvalSrc evaluates closed source text.
func EvalSrc(src string) Outcome { return Eval(Ctx(), src, rel.Scope{}) }

var (
	compMu    sync.Mutex
	compCache = map[string]rel.Expr{}
)

// Compiled returns a cached compiled template (templates reference free names bound via scope).
func Compiled(src string) (rel.Expr, error) {
	compMu.Lock()
	defer compMu.Unlock()
	if e, ok := compCache[src]; ok {
		return e, nil
	}
	var e rel.Expr
	var err error
	func() {
		defer func() {
			if r := recover(); r != nil {
				err = fmt.Errorf("compile panic: %v", r)
			}
		}()
		e, err = syntax.Compile(Ctx(), "", src)
	}()
	if err != nil {
		return nil, fmt.Errorf("compile %q: %s", src, ErrText(err))
	}
	compCache[src] = e
	return e, nil
}

// EvalT evaluates a compiled template with names bound to live values: EvalT("x | y","x",a,"y",b).
func EvalT(tmpl string, binds ...interface{}) Outcome {
	e, err := Compiled(tmpl)
	if err != nil {
		return Outcome{Err: err}
	}
	sc := rel.EmptyScope
	for i := 0; i+1 < len(binds); i += 2 {
		sc = sc.With(binds[i].(string), binds[i+1].(rel.Expr))
	}
	ctx := arraictx.ContextWithIsCompiling(Ctx(), false)
	return Guard(func() (rel.Value, error) { return e.Eval(ctx, sc) })
}

// Repr renders a value under recover.
func Repr(v rel.Value) (s string, p *PanicInfo) {
	defer func() {
		if r := recover(); r != nil {
			p = NewPanicInfo(r)
		}
	}()
	return fu.Repr(v), nil
}

// TypeName is the concrete Go type, used only as coverage evidence.
func TypeName(v rel.Value) string {
	if v == nil {
		return "nil"
	}
	return strings.TrimPrefix(fmt.Sprintf("%T", v), "rel.")
}
