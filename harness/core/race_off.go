//go:build !race

package core

const RaceEnabled = false
