package core

// Rng is a splitmix64 stream; all random choices of all checks derive from VERIF_SEED.
type Rng struct{ s uint64 }

func NewRng(seed uint64, stream ...uint64) *Rng {
	r := &Rng{s: seed*0x9E3779B97F4A7C15 + 0x1234567}
	for _, x := range stream {
		r.s ^= x * 0xBF58476D1CE4E5B9
		r.Next()
	}
	return r
}

func (r *Rng) Next() uint64 {
	r.s += 0x9E3779B97F4A7C15
	z := r.s
	z = (z ^ (z >> 30)) * 0xBF58476D1CE4E5B9
	z = (z ^ (z >> 27)) * 0x94D049BB133111EB
	return z ^ (z >> 31)
}

// Intn returns a value in [0,n).
func (r *Rng) Intn(n int) int {
	if n <= 1 {
		return 0
	}
	return int(r.Next() % uint64(n))
}

// Range returns a value in [lo,hi].
func (r *Rng) Range(lo, hi int) int { return lo + r.Intn(hi-lo+1) }

// Chance is true with probability num/den.
func (r *Rng) Chance(num, den int) bool { return r.Intn(den) < num }

func (r *Rng) Float() float64 { return float64(r.Next()>>11) / (1 << 53) }

// Pick returns a random element index weight-free.
func Pick[T any](r *Rng, xs []T) T { return xs[r.Intn(len(xs))] }

// Shuffle permutes xs in place.
func Shuffle[T any](r *Rng, xs []T) {
	for i := len(xs) - 1; i > 0; i-- {
		j := r.Intn(i + 1)
		xs[i], xs[j] = xs[j], xs[i]
	}
}

// Hash64 is FNV-1a over a string (distinct-case counting).
func Hash64(s string) uint64 {
	h := uint64(14695981039346656037)
	for i := 0; i < len(s); i++ {
		h ^= uint64(s[i])
		h *= 1099511628211
	}
	return h
}
