#!/usr/bin/env python3
"""Regenerates /verif/MANIFEST.json from the table below (kept valid at all times).
Usage: python3 mkmanifest.py   (validates against /root/.vp/MANIFEST.schema.json when available)"""
import json, os, subprocess, sys

ALL = ["C%02d" % i for i in range(1, 21)]

# property -> (category, technique, level text, level_note, design_ref)
CLAIMED = {
    "C14": ("exploration",
            "runtime reference-model monitor: exhaustive small-scope + seeded workload through the real evaluator",
            "Every //seq function is executed through the real evaluator on all subjects (len<=6) x patterns (len<=4) over a 2-letter alphabet in the three encodings, and each result's denotation is compared online with a 10-line reference on []int, plus three algebraic laws evaluated in arr.ai; a seeded slice adds longer sequences. Exhaustive within the stated bounds, sampled beyond; self-overlapping patterns (where the hand-written array matcher differs from Go's strings package) are all inside the bound.",
            "Trusted: the []int reference, Denote (uses only exported enumerators). Canonical sequences only; errors accepted only for the two documented-unsupported byte cases.",
            "DESIGN.md §7 C14"),
}

CLAIMED["C01"] = ("exploration",
    "runtime reference-model monitor: every operator application on live operands is compared with the finite-set model on their denotations; results cross-examined through Count/Has; callback probes observe fed elements",
    "Operands = a seed-independent core of ~60 model values covering every shape class (strings, bytes, arrays with offsets/holes/superimposed indices, dicts incl. multi-valued keys, relations, mixed sets, {}, {()}) realised through every construction path the language offers and deduplicated by (denotation, Go representation), plus seeded random values; each left operand is combined with every right operand under | & &~ ~~ with without <: and the six subset comparisons (and negations), plus count, ^, where and => through logging native-function probes, plus chains that reuse live results. Each application is judged locally against the model on the ACTUAL denotations of its inputs; count and Has of every result are cross-examined. Exhaustive over the core pool, sampled beyond.",
    "Trusted: the 10-line finite-set model operators, Denote (exported enumerators only). Violations inside the hazard regions listed in known-findings.json (superimposed sequences, sparse strings/bytes, multi-valued dict keys, offset string/bytes unions) are matched by hazard+mode; everything else, and any new panic site, is reported.",
    "DESIGN.md §7 C01")

CLAIMED["C03"] = ("exploration",
    "runtime history monitor: snapshots (denotation, printed form, count) of every live value re-taken after every later operation of a branching history and compared",
    "Branching histories over a pool of live values: ~50 operator templates (with/without at end/front/middle, ++ | & &~ ~~, >> >>> => where through native probes, offsets, joins, +>, //seq.*, pattern match and rebuild, orderby/rank/nest, Go-level With/Without/Map/Where/Concatenate/Union) applied with a bias to re-deriving from the same parent (the capacity-aliasing pattern); after every step every earlier value must still have the snapshot taken at its creation. No known findings are listed for this property: any change of any earlier value is reported.",
    "Trusted: Denote/Repr/Count as observation of a value's content. Mutation through Go-level misuse of exported slices by callers outside arrai is out of scope.",
    "DESIGN.md §7 C03")

CLAIMED["C02"] = ("exploration",
    "runtime reference-model monitor over pairs of construction paths: a = b compared with equality of denotations, plus set-collapse, dict-key, printed form, order and congruence contexts",
    "For every model value of the universe all unordered pairs of its construction paths (up to 15 path kinds: sugar, spelled-out tuples, relation literals in both column orders, unions, with-chains, without, where, =>, &~, &, ++, offset round trip, >>, +>-merged tuples, dict union/merge) are evaluated live and judged on their ACTUAL denotations: equal denotation must give = / not != / one set member / same dict entry / identical printed form / neither < nor > / equal results (by denotation and by =) under 12 contexts; near-miss pairs from neighbouring model values must be unequal and stay two members. Exhaustive over the core universe, seeded beyond.",
    "Trusted: Denote as the definition of 'same set'. Known findings (sparse strings, superimposed bytes, two panic sites in Less) are matched by hazard+mode or panic site; interchangeability is sampled over 12 contexts.",
    "DESIGN.md §7 C02")

CLAIMED["C05"] = ("exploration",
    "runtime reference-model monitor: call / ?: / >> / >>> / ++ / n\\ on live keyed collections compared with the set-of-pairs model; transformer probes log what they are fed",
    "Every pair-shaped model value (strings, bytes, arrays with offsets/holes/superimposed indices, dicts incl. multi-valued and non-string keys, {|@,x|} relations, mixed-payload sets), in every representation its construction paths yield, is called with every present key and with absent, just-outside, negative, non-integer and wrong-kind arguments (with and without ?:), mapped with >> and >>> through five logging native transformers (identity, +1, constant, kind-changing, failing; the index argument of >>> is logged too), concatenated with every same-kind sequence, and offset by n in {-2,-1,0,1,3,1.5}. Exactly-one rule, fallback only in the no-value case, keys unchanged, every associated value fed exactly once.",
    "Trusted: the pair-set model. Known findings (superimposed/sparse sequences, multi-valued dict keys, non-integer offsets, one panic site) matched by hazard+mode.",
    "DESIGN.md §7 C05")
CLAIMED["C19"] = ("fault_enumeration",
    "runtime snapshot monitor over real and in-memory filesystems + enumeration of an injected I/O error at every filesystem operation",
    "arrai.OutputValue is run on generated descriptions x pre-existing states on a real directory and on MemMapFs; before/after snapshots are compared with a model of the description and the ifExists rules taken from the docs (clauses exact, confined, atomic with the kind of residue as mode); for the fault clause a wrapper filesystem fails the n-th operation for every n of the fault-free run and the command must report an error. Exhaustive small core of descriptions/pre-states + seeded slice; every operation kind is a fault point.",
    "Trusted: the description/ifExists model (from docs/docs/cli/eval.md), the recording afero wrapper. CLI flag wiring in cmd/arrai is not executed; state after an injected fault is not judged (per the property).",
    "DESIGN.md §7 C19")
CLAIMED["C20"] = ("exploration",
    "runtime reference-model monitor: leaf census over the denotation of each test file vs test.RunTests verdict, parsed report and ForeachLeaf callbacks",
    "Generated result trees (all trees of depth<=2 over a small leaf alphabet, exhaustive; deeper seeded ones) in 24 container spellings (sparse/offset arrays, dicts with odd keys, relation-literal arrays, unions) and directory layouts (nested, hidden, non-test files, unevaluable files) are run through test.RunTests on a MemMapFs; verdict (nil error iff every leaf is literal true), each-leaf-once, counts-add-up and which-files-ran are compared with a census computed on the denotation.",
    "Trusted: the census model, the report parser. Ambiguous containers ([] \"\" {} = false; multi-valued dicts) are judged on the verdict only; the 3-line CLI wrapper is not executed.",
    "DESIGN.md §7 C20")

CLAIMED["C07"] = ("exploration",
    "differential runtime monitor across worker processes running under distinct injected hash-seed vectors; recorded outputs grouped by program and compared offline",
    "K worker processes (6 quick, 16 thorough), each with its own github.com/arr-ai/hash seed vector installed before any value exists (one keeps crypto/rand seeds), evaluate the same seeded programs (~70 templates over sets/relations/dicts/tuples of 9-40 members: set algebra, => where orderby rank nest joins, aggregates, dict call/>>, printing, interpolation, //seq, JSON, superimposed construction). fu.Repr, arrai.OutputValue bytes and outcome kind must be identical in all K; the raw enumeration order of each program's base set is logged and a program counts as non-trivial only if that order really differed between processes.",
    "Trusted: SetSeeds-before-main reproduces seed-dependent behaviour (each worker reports the fingerprint of the seeds in force; floor: K distinct fingerprints). 'All seeds' is sampled. Known: superimposed-sequence construction, multi-valued dict keys, float sum/mean order.",
    "DESIGN.md §7 C07")

CLAIMED["C08"] = ("exploration",
    "differential (metamorphic) runtime monitor: program vs one documented rewrite of it, both evaluated by the real compiler/evaluator and compared by denotation and success/failure",
    "Programs come from a harness-owned typed AST (seed-independent corpus of ~2200 + seeded random programs, depth<=5); rewrites R1 let/arrow/lambda-application, R2 sugar/spelled-out/relation literal, R3 default vs explicit binder, R4 comments/whitespace at grammar C* positions, R5 redundant parentheses, R6 minimal vs full parenthesisation from the documented precedence table, R7 capture-avoiding inlining of let-bound values, R8 unselected cond/&&/|| branch replaced by a failing expression, R9 literals hidden from constant folding; each applied at every applicable position, one at a time.",
    "Trusted: the harness's printer/precedence table (transcribed from the documented grammar) and substitution. Error text is never compared. Macros, xstr templates, rec and imports are outside the generated fragment.",
    "DESIGN.md §7 C08")
CLAIMED["C12"] = ("exploration",
    "runtime round-trip monitor: value -> printed text (fu.Repr, //str.repr, OutputValue, bundle config) -> evaluated again -> compared by denotation, plus a second generation",
    "Values are built from model values through several construction paths and from string contents over every code point below U+0300 plus astral/surrogate-adjacent samples, quotes, escapes-lookalikes, 14 classes of attribute names, offset/sparse sequences, multi-valued dicts, nested relations and 20k numbers satisfying the <15-character precondition; each printed form must evaluate to a value with the same denotation, and its re-print must read back to the original too. Bundle configs with hostile module names/paths are read back through the bundle runtime.",
    "Trusted: Denote; the precondition filter on numbers. Repr(v')=Repr(v) is not required (equal values may legitimately print differently across representations).",
    "DESIGN.md §7 C12")
CLAIMED["C13"] = ("exploration",
    "runtime round-trip monitors per codec (JSON, YAML, CSV, bits, wire) against trusted Go parsers (encoding/json, yaml.v3) and the value model",
    "Exhaustive small core (5.1k documents, 5.4k CSV matrices x 4 option sets, 4.3k integers) plus seeded documents of depth<=5 with corner values: enc(dec(d)) must parse to the same content as d (numbers as float64), dec(enc(dec(d)))=dec(d) (non-strict decoders judged modulo their documented collapse), CSV decode(encode(m))=m or rejection, bits.set/mask inverse below 2^53, wire UnmarshalFromJSON(MarshalToJSON(v))=v or rejection, and strict encoders must reject what they cannot represent.",
    "Trusted: encoding/json, gopkg.in/yaml.v3 as document parsers; the content model. The wire format is exercised through rel.MarshalToJSON/UnmarshalFromJSON, not over gRPC.",
    "DESIGN.md §7 C13")
CLAIMED["C15"] = ("exploration",
    "differential runtime monitor (source tree vs bundle) with recording filesystems, archive audit, and strace over the real arrai binaries",
    "Generated module layouts (seed-independent grid of 3.4k + seeded random: with/without go.mod, nested roots, ./ and / imports, data files with implicit/explicit decoders, diamonds, main anywhere) are evaluated from sources on a MemMapFs and from the bundle (sources deleted, several working directories); results compared by denotation/failure class; host filesystems are recorders that must see zero operations during a bundle run; every file the source evaluation used must have a same-content archive entry that the bundle run opened. A sample goes through the real `arrai bundle`/`arrai run x.arraiz` binaries under strace -f: no path under the former source dir, no go.mod, no host path the source run did not touch.",
    "Trusted: recording afero wrappers, the strace parser (canaries prove it sees arrai's file access). Non-local (module/URL) imports cannot run offline and are not generated.",
    "DESIGN.md §7 C15")
CLAIMED["C16"] = ("exploration",
    "runtime monitor over a recording filesystem: every file read during import is checked against the module root; token-based consistency; cycles via the logical hang monitor",
    "Hostile import path strings (grammar over ., .., ..., names, empty, blank, tab, %2e%2e, padded, repeated separators; exhaustive <=4 segments in thorough) in 120 contexts (5 layouts x 4 depths x 3 script-addressing modes x direct/via helper) with decoy secret files in every ancestor and sibling directory: every file whose content is read must lie beneath the importer's module root and no decoy token may reach the result; DAGs with files imported through several spellings/importers must give equal values (by token, by = and against the model); every cyclic graph (length 1-4, through diamonds, random back edges, and entered concurrently by goroutines sharing one cache) must produce an error - a hang is decided by the blocked-forever criterion.",
    "Trusted: the recording fs (a read = successful open of a non-directory delivering >=1 byte). Confinement is lexical over MemMapFs; symlinks and module/URL imports are out of scope.",
    "DESIGN.md §7 C16")
CLAIMED["C18"] = ("exploration",
    "runtime effect monitor: sandboxed evaluations run in a child under strace (openat/connect/execve) with canary files, plus a capability walk over returned values and an audit of the safe library",
    "Configurations (stdlib sub-tuples x scopes) x routes (direct //refs, every unsafe-library path, nested //eval.*, evaluator(cfg), returned functions applied later, import syntax, macros, //fn.fix) x targets: a step violates when an ungiven file/net/exec native is reachable in the result, a canary token appears in result or error text, a canary is opened, a connect is attempted or an execve happens while that capability was not passed in; every ungiven //path must fail. Each traced child first runs four unsandboxed controls (file, net, exec, null) so a blind monitor is inconclusive, not a pass. Every native of SafeStdScopeTuple is invoked under the same monitors.",
    "Trusted: strace, marker windows. Closures are opaque to the walk (covered by apply-later variants through the effect monitors). Known escape routes are pinned by route so a new route is reported.",
    "DESIGN.md §7 C18")

CLAIMED["C04"] = ("exploration",
    "runtime reference-model monitor: every join operator, nest, unnest and rank on live relations compared with the set-comprehension model on their denotations; results re-examined after later joins",
    "Relation pairs over the attribute alphabet {a,b,c,@,@item,@char,@value} with every left-only/common/right-only partition, all column permutations of relation literals, rows from a 3-value domain, operands realised as relation literals, computed tuple sets, join-chains (unsorted internal column order) and arrays/strings/dicts/bytes used as binary relations: the eight join operators are judged against {t+u | t,u agree on common attributes} and its documented projections (members, count, Has, =), nest/nest~/nest-single against group-by with no row lost or invented, unnest against nest's inverse, rank against the count of strictly smaller keys and against orderby; earlier results are re-checked after later joins on the same operand (stability). Exhaustive over headings x permutations x 8 operators for 2-3 rows; seeded beyond.",
    "Trusted: the 20-line join/nest/rank model transcribed from the docs. The `unnest` syntax does not compile (recorded under C10); unnest is driven through rel.NewUnnestExpr. Known findings need a model hazard in inputs or expected output plus a delta or site.",
    "DESIGN.md §7 C04")
CLAIMED["C06"] = ("exploration",
    "runtime axiom monitor: trichotomy, transitivity over all triples, derived operators and every sort-based construct checked against the implementation's own < on live values",
    "~690 live values (quick) across every kind and representation, each through several construction paths: all ordered pairs are evaluated under < = > <= >= (exactly one of a<b, a=b, b<a; derived operators consistent), all triples are judged for transitivity in the driver (5e7 quick, 5e9 thorough), b<a is evaluated twice (in two processes) and must agree, and orderby / order / keyed orderby / max / min / rank / printed member order / tuple attribute print order must follow < and agree across two runs and across differently built equal sets. The oracle has no opinion on WHICH order is right.",
    "Trusted: nothing beyond the evaluator's own answers being compared with each other (axioms only). Kind-pair hazards for known findings are computed from denotations, never Go types.",
    "DESIGN.md §7 C06")

CLAIMED["C09"] = ("exploration",
    "runtime reference-model monitor: let / call / cond pattern forms on live values compared with a structural matcher derived from the statement, plus a model-free rebuild round trip",
    "Patterns enumerated from a small grammar (literals, names, _, (expr), array/tuple/dict/set patterns, ...rest in every position, fallbacks, nesting<=3; ~1500 core + seeded) against matching, near-miss (one element changed/extra/missing, offset and holey arrays, wrong kind, string vs array) values realised through several construction paths: exact bindings on a match, rejection (error for let/call, next arm for cond) on a near miss, first matching cond arm, and substituting the implementation's own bindings back into the pattern read as an expression must rebuild the value. Shapes the implementation explicitly refuses as non-deterministic, and shapes the statement leaves open, are counted but not judged.",
    "Trusted: the reference matcher (match / no-match / open). Pattern holes `[a,,b]` are outside the statement's pattern grammar (their nil-dereference is a C10 matter).",
    "DESIGN.md §7 C09")
CLAIMED["C10"] = ("exploration",
    "process-boundary crash and logical-hang monitor over an operator x operand-kind matrix, a safe-stdlib x argument-kind matrix, import trees and grammar-directed source-text fuzz",
    "Every program runs under recover in a worker child (a child death is attributed to its case; hangs are decided by the blocked-forever / spinning criteria on CPU time and stack samples, never wall clock): 360 operator templates x 54 operand kinds (incl. functions, @neg, holey/offset sequences, multi-dicts), 50 safe stdlib functions x argument kinds with function-valued results applied further, a 2.8k-program corpus harvested from examples/ and test strings with 17 mutation operators, and generated programs. Signature = (panic|fatal|hang, innermost arrai frame + message class); the ~60 sites present on the unchanged tree are listed one by one (matrix entries pinned by (site, entry)); a new site, a nil value with nil error, or a new way into a pinned matrix site is reported.",
    "Trusted: recover + child-death attribution; site normalisation (closure suffixes and line numbers stripped). A new way to reach an already listed site from the seeded fuzz slice is not reported. Liveness is bounded progress on bounded inputs.",
    "DESIGN.md §7 C10")

CLAIMED["C11"] = ("exploration",
    "Go race detector (race build of the harness and /repo) over barrier-released goroutines on shared cold values, plus a serial-equivalence oracle",
    "Workloads: W1 shared cold values (fresh tuples' lazily cached names/buckets, relations' index caches, dicts, closures, compiled expressions) hit by 6-16 goroutines released together; W2 fresh worker processes racing first use of the process-wide lazies (std scopes, fix functions, implicit decoders) with lock-free re-reads while others initialise; W3 fan-out of the trie library's parallel callbacks forced with FROZEN_CONCURRENCY=0 (and one genuinely large 2^17-element set with the knob unset in thorough), with succeeding and failing callbacks; W4 concurrent Compile through one shared import cache (succeeding and failing imports). Race logs (halt_on_error=0, history_size=5) are parsed offline: a report with an arrai frame on either stack is a violation keyed by the unordered pair of innermost arrai frames; reports wholly inside the trie library are evidence only. Every goroutine's result must equal two serial runs on separately built copies. A deliberate harness canary race proves the detector and log pipeline are alive.",
    "Trusted: the Go race detector (sees only executed interleavings; evidence reports overlap counts and goroutine ids). Races in memory owned by the trie library are outside the property.",
    "DESIGN.md §7 C11")

CLAIMED["C17"] = ("exploration",
    "recorded-history checker: client-boundary call/return logs of concurrent update/observe/cancel/hang-up clients judged offline by a sequential model (append-style unique ids) and cross-checked with porcupine; blocked-forever probe for unanswered requests; race build",
    "Histories of 2-6 concurrent clients (10-40 operations: succeeding/failing/panicking updates, observers with succeeding/failing expressions or failing onupdate, cancel, cancel again, hang-up, kill) are driven against the Go engine API in-process (2.2k histories quick) and against the real `arrai serve` process through gRPC clients, websocket observers and the CLI; every update appends a unique id, so each observed state spells out the total order. The pure oracle (re-run offline on the forwarded history) judges: every update answered (logical hang probe otherwise), update results, final state = exactly the acknowledged ids once, real-time order, and each observer's sequence = its expression on consecutive states from its subscription point (no gap, duplicate, stale, stray); porcupine cross-checks the update/initial-observe register history (timeout => inconclusive). Runs under -race.",
    "Trusted: the client-side recorder (one atomic logical clock), the 20-line sequential model, porcupine. 'Exactly one onclose' is not judged (the statement leaves it open). For observers cut on the wire only consecutiveness is judged.",
    "DESIGN.md §7 C17")

NOT_YET = "check not built yet in this session (planned, see DESIGN.md §7/§12); will be claimed once its monitor is silent on the unchanged tree and catches seeded breaks"

def main():
    root = os.path.dirname(os.path.abspath(__file__))
    hooks_commits = []
    hp = os.path.join(root, "MANIFEST.hooks")
    if os.path.exists(hp):
        for ln in open(hp):
            ln = ln.strip()
            if ln and not ln.startswith("#"):
                hooks_commits.append(ln.split()[0])
    checks = []
    for pid in ALL:
        if pid not in CLAIMED:
            continue
        cat, tech, text, note, ref = CLAIMED[pid]
        checks.append({
            "property_id": pid,
            "quick_cmd": "./check %s --tier quick" % pid,
            "thorough_cmd": "./check %s --tier thorough" % pid,
            "evidence_file": "/verif/evidence/%s.json" % pid,
            "replay_cmd_template": "./check %s --replay {path}" % pid,
            "engine": "vcheck",
            "level_claimed": {"category": cat, "text": text, "design_ref": ref},
            "level_note": note,
            "technique": tech,
        })
    na = [{"property_id": p, "reason": NOT_APPLICABLE.get(p, NOT_YET)} for p in ALL if p not in CLAIMED]
    m = {
        "version": 1,
        "setup_cmd": "./setup.sh",
        "hooks": {
            "guard": "verif",
            "enable": "go build -tags verif (the harness module replaces github.com/arr-ai/arrai => /repo, so every check rebuilds /repo's working tree with the tag on)",
            "baseline_off_cmd": ". /verif/env.sh && cd /repo && go test -json -vet=off -count=1 -timeout 25m ./...",
            "source_commits": hooks_commits,
            "add_only": True,
        },
        "engines": [{
            "name": "vcheck",
            "path": "/verif/harness",
            "serves_properties": sorted(CLAIMED),
            "kind_free_text": "Go driver/worker harness: child process per shard runs generated workloads against the packages of /repo (built from the working tree with -tags verif, -race for C11/C17); monitors = reference-model oracles, differential/ history checkers, crash+logical-hang monitor, Go race detector; known-finding matcher; evidence writer",
        }],
        "checks": checks,
        "not_applicable": na,
        "notes": "Technique family: runtime monitoring and sanitizers. Exit 0 = held on everything observed, 1 = VIOLATION line(s), 2 = check broken/inconclusive (coverage floor missed). Known genuine defects are listed in /verif/known-findings.json; fixed ones are recorded there under 'fixed'.",
    }
    out = os.path.join(root, "MANIFEST.json")
    json.dump(m, open(out, "w"), indent=1)
    sch = "/root/.vp/MANIFEST.schema.json"
    if os.path.exists(sch):
        r = subprocess.run(["python3-vt", "-c",
            "import json,jsonschema,sys; jsonschema.validate(json.load(open(sys.argv[1])), json.load(open(sys.argv[2]))); print('MANIFEST valid')",
            out, sch])
        sys.exit(r.returncode)

NOT_APPLICABLE = {}

if __name__ == "__main__":
    main()
