#!/bin/bash
# Run once after a fresh restore, offline: builds the harness (plain and -race) from files on disk.
set -e
cd "$(dirname "$0")"
. ./env.sh
mkdir -p bin run evidence
go version
(cd harness && go build -tags verif -o ../bin/vcheck ./cmd/vcheck)
(cd harness && go build -race -tags verif -o ../bin/vcheck-race ./cmd/vcheck)
echo "setup ok"
