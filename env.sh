# sourced by every script: Go toolchain + offline flags (see DESIGN §2)
for _d in /root/go/pkg/mod/golang.org/toolchain@v0.0.1-go1.24.0.linux-amd64/bin /opt/veriftools/go1.26.8/bin; do
  if [ -x "$_d/go" ]; then export PATH="$_d:$PATH"; break; fi
done
unset _d
export GOTOOLCHAIN=local GOFLAGS=-mod=mod GOPROXY=off GONOSUMDB='*' GONOSUMCHECK=1 GOFLAGS=-mod=mod
export CARGO_NET_OFFLINE=true PIP_NO_INDEX=1
export VERIF_ROOT="${VERIF_ROOT:-$(cd "$(dirname "${BASH_SOURCE[0]}")" && pwd)}"
