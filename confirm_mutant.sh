#!/bin/bash
# confirm_mutant.sh <srcdir> : srcdir holds patch.diff, run.sh (+demo files), meta.json (from a seeding sub-agent).
# Confirms in a scratch worktree of /repo HEAD: demo passes without the change; with it the tree builds,
# the repo's suite passes, and the demo fails. Prints a one-line verdict; removes the worktree.
set -u
SRC="$(cd "$1" && pwd)"; NAME="$(echo "$SRC" | tr "/" "_" | sed "s/^_tmp_//")"
. /verif/env.sh
W=/tmp/cm-$NAME; rm -rf "$W"; git -C /repo worktree prune
git -C /repo worktree add -q --detach "$W" HEAD || exit 2
ORIG=$(grep -o '/tmp/mut-[A-Z0-9]*/repo' "$SRC/run.sh" | head -1)
prep() { # copy demo files next to where run.sh expects them; rewrite absolute worktree paths
  rm -rf "$W/.demo"; mkdir -p "$W/.demo"; cp -r "$SRC"/. "$W/.demo/"
  [ -n "$ORIG" ] && grep -rl "$ORIG" "$W/.demo" 2>/dev/null | xargs -r sed -i "s#$ORIG#$W#g"
  grep -rl "/tmp/mut-[A-Z0-9]*/out/[0-9]*" "$W/.demo" 2>/dev/null | xargs -r sed -i "s#/tmp/mut-[A-Z0-9]*/out/[0-9]*#$W/.demo#g"
}
rundemo() { (cd "$W" && timeout 1200 bash .demo/run.sh) > "$W/.demo.out" 2>&1; echo $?; }
prep
R0=$(rundemo); cp "$W/.demo.out" /tmp/cm-$NAME.without.log
(cd "$W" && git apply --whitespace=nowarn "$SRC/patch.diff") || { echo "$NAME: PATCH DOES NOT APPLY"; git -C /repo worktree remove --force "$W"; exit 1; }
(cd "$W" && go build ./... ) > /tmp/cm-$NAME.build.log 2>&1; B=$?
R1=$(rundemo); cp "$W/.demo.out" /tmp/cm-$NAME.with.log
# demo test files must not be part of the suite run
find "$W" -name 'demo_test.go' -newer "$SRC/patch.diff" -delete 2>/dev/null; (cd "$W" && git clean -fdq -e .demo -e .demo.out)
(cd "$W" && go test -json -vet=off -count=1 -timeout 40m ./... ) > /tmp/cm-$NAME.suite.json 2>/tmp/cm-$NAME.suite.err
FAILPK=$(python3 - /tmp/cm-$NAME.suite.json <<'PY'
import json,sys
stable=set(json.load(open('/root/.vp/BASELINE.json'))['stable_pass']); res={}
for ln in open(sys.argv[1]):
    try: e=json.loads(ln)
    except Exception: continue
    if e.get('Test') and e.get('Action') in('pass','fail','skip'): res[e['Package']+'::'+e['Test']]=e['Action']
bad=[t for t in sorted(stable) if res.get(t)!='pass']
print(' '.join(bad[:6]))
PY
)
if [ -z "$FAILPK" ]; then S=0; else S=1; fi
echo "$NAME: demo-without=$R0 build=$B demo-with=$R1 suite=$S $FAILPK"
git -C /repo worktree remove --force "$W"
