#!/bin/bash
# Re-run every kept seeded change against its check (final table for DESIGN §13.5); also cross-property runs.
cd /verif
for ID in C01 C02 C03 C05 C07 C08 C12 C13 C14 C15 C16 C18 C19 C20; do for K in 1 2; do
  n=$ID-$K; D=/verif/seeded/$n
  if [ ! -f "$D/patch.diff" ]; then mkdir -p "$D"; rsync -a --exclude '*.log' /tmp/mut-$ID/out/$K/ "$D/"; fi
  T=$(./try_mutant.sh $ID "$D/patch.diff" 1 quick 2>&1 | head -1)
  echo "FINAL $n: $(echo "$T" | cut -c1-300)"
  python3 - "$D" "$T" <<'PY'
import json,sys
d,t=sys.argv[1:3]
try: m=json.load(open(d+'/meta.json'))
except Exception: m={}
m['check_result_final']=t
json.dump(m,open(d+'/meta.json','w'),indent=1)
PY
done; done
echo "FINAL C01-2@C03: $(./try_mutant.sh C03 /verif/seeded/C01-2/patch.diff 1 quick 2>&1 | head -1 | cut -c1-300)"
echo ALLDONE
