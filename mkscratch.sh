#!/bin/bash
# mkscratch.sh <name>: private copy of /verif (no .git/run/bin/replays) + private git worktree of /repo
# under /tmp/vw-<name>/, with the harness's replace pointed at that worktree. For building/validating
# a check (or trying a mutant) without touching /repo or /verif. Remove with rmscratch.sh <name>.
set -e
N="${1:?name}"; D=/tmp/vw-$N
[ -e "$D" ] && { echo "$D exists"; exit 1; }
mkdir -p "$D"
rsync -a --exclude .git --exclude run --exclude bin --exclude replays --exclude evidence /verif/ "$D/verif/"
mkdir -p "$D/verif/evidence"
git -C /repo worktree add -q -b "build-$N" "$D/repo" HEAD
sed -i "s#^replace github.com/arr-ai/arrai => .*#replace github.com/arr-ai/arrai => $D/repo#" "$D/verif/harness/go.mod"
sed -i "s#cd /repo #cd $D/repo #" "$D/verif/baseline.sh"
sed -i "s#/verif/#$D/verif/#g" "$D/verif/baseline.sh" "$D/verif/triage.py"
echo "$D ready: verif copy at $D/verif (run ./check there), repo worktree at $D/repo (branch build-$N)"
