#!/bin/bash
# process_mutants.sh <ID>...: for each seeded change /tmp/mut-<ID>/out/<k>: confirm it in a scratch worktree,
# keep it under /verif/seeded/<ID>-<k>/ when confirmed, then run the property's quick check against it.
cd /verif
for ID in "$@"; do
  for K in 1 2; do
    SRC=/tmp/mut-$ID/out/$K
    [ -f $SRC/patch.diff ] || { echo "$ID-$K: no patch"; continue; }
    V=$(./confirm_mutant.sh $SRC 2>&1 | tail -1); echo "CONFIRM $ID-$K: $V"
    if echo "$V" | grep -q "demo-without=0 build=0 demo-with=[1-9][0-9]* suite=0"; then
      D=seeded/$ID-$K; rm -rf $D; mkdir -p $D; cp -r $SRC/. $D/; rm -f $D/suite.log
      T=$(./try_mutant.sh $ID /verif/$D/patch.diff 1 quick 2>&1); echo "TRY $ID-$K: $T"
      python3 - "$D" "$V" "$T" <<'PY'
import json,sys
d,v,t=sys.argv[1:4]
try: m=json.load(open(d+'/meta.json'))
except Exception: m={}
m['confirmed_here']=v; m['check_result']=t.splitlines()[0] if t else ''
m['what_we_ran']="confirm_mutant.sh (scratch worktree of /repo HEAD: demo without change, go build, demo with change, repo suite vs BASELINE stable_pass) then try_mutant.sh (git apply to /repo, ./check <ID> --tier quick seed 1, git checkout)"
json.dump(m,open(d+'/meta.json','w'),indent=1)
PY
    fi
  done
done
