#!/bin/bash
# try_mutant.sh <ID> <patch.diff> [seed] [tier]: apply a seeded change to /repo, run the property's check, undo.
ID="$1"; P="$2"; SEED="${3:-1}"; TIER="${4:-quick}"
cd /verif
[ -n "$(git -C /repo status --porcelain)" ] && { echo "/repo not clean"; exit 2; }
git -C /repo apply --whitespace=nowarn "$P" || { echo "patch does not apply"; exit 2; }
VERIF_SEED=$SEED ./check "$ID" --tier "$TIER" > run/mutant-$ID.out 2>&1; RC=$?
git -C /repo checkout -- . ; git -C /repo clean -fdq
echo "check $ID seed=$SEED exit=$RC violations=$(grep -c '^VIOLATION' run/mutant-$ID.out) :: $(grep -m1 -A2 '^VIOLATION' run/mutant-$ID.out | tr '\n' ' ' | cut -c1-420)"
tail -1 run/mutant-$ID.out | cut -c1-300
