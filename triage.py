#!/usr/bin/env python3
"""triage.py <ID> [filter...] — group a run's violation records by (clause, entry, mode, delta, site);
show count, hazards common to all occurrences (model-level only), and two examples."""
import json,glob,sys,collections
pid=sys.argv[1]
flt=sys.argv[2:]
groups=collections.defaultdict(list)
for f in glob.glob('/verif/run/%s/*.jsonl'%pid):
    for ln in open(f):
        try: l=json.loads(ln)
        except Exception: continue
        if l.get('t')!='v': continue
        s=l['viol']['sig']
        k=(s.get('clause',''),s.get('entry',''),s.get('mode',''),s.get('delta',''),s.get('site',''))
        groups[k].append(l['viol'])
for k,vs in sorted(groups.items(), key=lambda kv:(kv[0][0],kv[0][1],kv[0][2])):
    line=' | '.join(k)
    if flt and not all(x in line for x in flt): continue
    common=None; union=set()
    for v in vs:
        h=set(x for x in v['sig'].get('hazards',[]) if not x.startswith('rep'))
        common = h if common is None else common&h
        union|=h
    print('%5d  %s\n       common=%s\n       union=%s'%(len(vs),line,sorted(common),sorted(union)))
    for v in vs[:2]:
        print('         e.g.',v['detail'][:230].replace('\n',' '))
print(len(groups),'groups')
