#!/usr/bin/env python3
"""triage2.py <ID> [excluded-hazard-prefix ...] — list violations whose hazards contain none of the excluded prefixes, grouped."""
import json,glob,sys,collections
pid=sys.argv[1]; excl=sys.argv[2:]
groups=collections.defaultdict(list)
tot=0
for f in glob.glob('/verif/run/%s/*.jsonl'%pid):
    for ln in open(f):
        try: l=json.loads(ln)
        except Exception: continue
        if l.get('t')!='v': continue
        tot+=1
        s=l['viol']['sig']
        hz=[h for h in s.get('hazards',[]) if not h.startswith('rep')]
        if any(h.startswith(e) for h in hz for e in excl): continue
        if any(s.get('delta','').startswith(e) for e in excl): continue
        k=(s.get('clause',''),s.get('entry',''),s.get('mode',''),s.get('delta',''),s.get('site',''),tuple(hz))
        groups[k].append(l['viol'])
print(tot,'violations;',sum(len(v) for v in groups.values()),'remain in',len(groups),'groups')
for k,vs in sorted(groups.items()):
    print('%5d  %s'%(len(vs),' | '.join(str(x) for x in k)))
    for v in vs[:2]:
        print('         e.g.',v['detail'][:260].replace('\n',' '), [h for h in v['sig'].get('hazards',[]) if h.startswith('rep')])
