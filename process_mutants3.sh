#!/bin/bash
cd /verif; mkdir -p run/mut3
ls -d /tmp/mut-C{04,06,09,10,11,17}/out/[12] 2>/dev/null | xargs -P 6 -I{} bash -c 'n=$(echo {} | sed "s#/tmp/mut-\(C[0-9]*\)/out/\([0-9]\)#\1-\2#"); [ -f {}/meta.json ] && ./confirm_mutant.sh {} > run/mut3/$n.confirm 2>&1'
for f in run/mut3/*.confirm; do
  n=$(basename $f .confirm); ID=${n%-*}; K=${n#*-}; V=$(tail -1 $f); echo "CONFIRM $n: $V"
  if echo "$V" | grep -q "demo-without=0 build=0 demo-with=[1-9][0-9]* suite=0"; then
    D=/verif/seeded/$n; mkdir -p "$D"; rsync -a --exclude '*.log' /tmp/mut-$ID/out/$K/ "$D/"
    T=$(./try_mutant.sh $ID "$D/patch.diff" 1 quick 2>&1 | head -1); echo "TRY $n: $T"
    python3 - "$D" "$V" "$T" <<'PY'
import json,sys
d,v,t=sys.argv[1:4]
try: m=json.load(open(d+'/meta.json'))
except Exception: m={}
m['confirmed_here']=v; m['check_result']=t; m['check_result_final']=t
m['what_we_ran']="confirm_mutant.sh (scratch worktree of /repo HEAD: demo without change, go build, demo with change, repo suite vs BASELINE stable_pass) then try_mutant.sh (git apply to /repo, ./check <ID> --tier quick seed 1, git checkout)"
json.dump(m,open(d+'/meta.json','w'),indent=1)
PY
  fi
done
echo ALLDONE
