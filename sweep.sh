#!/bin/bash
# sweep.sh <ID> <tier> <seed>... : run a check at several seeds; one summary line per seed, plus any VIOLATION/BROKEN lines
ID="$1"; TIER="$2"; shift 2
cd "$(dirname "$0")"
for s in "$@"; do
  VERIF_SEED=$s ./check "$ID" --tier "$TIER" 2>&1 | grep -E "^(VIOLATION|BROKEN|$ID tier=)|^  clause=" | head -12
done
