#!/bin/bash
# regen_evidence.sh [seed]: run every claimed check's quick tier once (evidence files rewritten); summary per check
cd "$(dirname "$0")"; SEED="${1:-1}"
for id in $(python3 -c "import json;print(' '.join(c['property_id'] for c in json.load(open('MANIFEST.json'))['checks']))"); do
  S=$(date +%s); VERIF_SEED=$SEED ./check $id --tier quick > run/regen-$id.out 2>&1; RC=$?
  echo "$id exit=$RC $(( $(date +%s) - S ))s :: $(tail -1 run/regen-$id.out | cut -c1-220)"
done
