#!/usr/bin/env python3
"""integrate.py <ID>: merge a builder's scratch (/tmp/vw-<ID>) into /verif and /repo.
 - copies harness/checks/cNN*.go (and reports core/ diffs, which are NOT copied)
 - cherry-picks the commits of branch build-<ID> (oldest first) onto /repo's current branch
 - merges known-findings entries of that property and its 'fixed:' lines (shas rewritten to the new commits)
Prints what it did; run baseline.sh afterwards."""
import json, os, subprocess, sys, glob, shutil, re
ID=sys.argv[1]; NN=ID[1:]
S='/tmp/vw-%s'%ID
def sh(*a, **k): return subprocess.run(a, capture_output=True, text=True, **k)
# 1. files
for f in glob.glob(S+'/verif/harness/checks/c%s*.go'%NN):
    shutil.copy(f, '/verif/harness/checks/'); print('copied', os.path.basename(f))
d=sh('diff','-rq',S+'/verif/harness/core','/verif/harness/core').stdout
print('core diff:\n'+d if d.strip() else 'core: identical')
for extra in ('universe.go','c01.go'):
    d=sh('diff','-q',S+'/verif/harness/checks/'+extra,'/verif/harness/checks/'+extra).stdout
    if d.strip(): print('NOTE shared file differs:',extra)
# 2. commits
base=sh('git','-C','/repo','merge-base','HEAD','build-'+ID).stdout.strip()
commits=sh('git','-C','/repo','log','--reverse','--format=%H %s',base+'..build-'+ID).stdout.strip().splitlines()
shamap={}
for ln in commits:
    h,subj=ln.split(' ',1)
    if '--no-pick' in sys.argv: print('would pick',h[:7],subj); continue
    r=sh('git','-C','/repo','cherry-pick',h)
    if r.returncode!=0:
        print('CHERRY-PICK FAILED for',h[:7],subj,'\n',r.stdout,r.stderr); sh('git','-C','/repo','cherry-pick','--abort'); continue
    new=sh('git','-C','/repo','log','-1','--format=%h').stdout.strip()
    shamap[h[:7]]=new; print('picked',h[:7],'->',new,subj)
# 3. findings
mine=json.load(open('/verif/known-findings.json')); theirs=json.load(open(S+'/verif/known-findings.json'))
tf=[f for f in theirs.get('findings',[]) if f.get('property')==ID]
mine['findings']=[f for f in mine['findings'] if f.get('property')!=ID]+tf
print('findings merged:',[f['id'] for f in tf])
for ln in theirs.get('fixed',[]):
    if 'property=%s '%ID in ln and not any(ln.split(' ',3)[-1][:40] in m for m in mine['fixed']):
        for old,new in shamap.items(): ln=re.sub(r'\b%s[0-9a-f]*'%old,new,ln)
        mine['fixed'].append(ln); print('fixed line:',ln[:150])
json.dump(mine,open('/verif/known-findings.json','w'),indent=1,ensure_ascii=False)
