#!/bin/bash
# sweep_all.sh <tier> <seed>...: every claimed check at each seed, into a scratch evidence-free snapshot? No: runs in place
# but saves/restores evidence so committed evidence stays the seed-1 run.
cd "$(dirname "$0")"; TIER="$1"; shift
mkdir -p run/evidence-keep; cp evidence/*.json run/evidence-keep/
for s in "$@"; do for id in $(python3 -c "import json;print(' '.join(c['property_id'] for c in json.load(open('MANIFEST.json'))['checks']))"); do
  VERIF_SEED=$s ./check $id --tier $TIER > run/sweep-$id-$s.out 2>&1; RC=$?
  echo "seed=$s $id exit=$RC :: $(tail -1 run/sweep-$id-$s.out | cut -c1-200)"; [ $RC -ne 0 ] && grep -E "^(VIOLATION|BROKEN)|^  clause=" run/sweep-$id-$s.out | head -6 | cut -c1-400
done; done
cp run/evidence-keep/*.json evidence/
echo SWEEPDONE
