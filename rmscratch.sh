#!/bin/bash
N="${1:?name}"; D=/tmp/vw-$N
git -C /repo worktree remove --force "$D/repo" 2>/dev/null || true
git -C /repo branch -D "build-$N" 2>/dev/null || true
rm -rf "$D"
